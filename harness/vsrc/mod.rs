//! Verification harness for ckb-light-client (runtime monitoring).
//! This module tree is appended to the repository's own module tree (see gen_crate.py), so the
//! code under test is the real code of /repo, compiled with cfg(test) + feature `verif`.
#![allow(clippy::all)]

pub mod chain;
pub mod client;
pub mod mutate;
pub mod net;
pub mod out;
pub mod refidx;
pub mod rng;
pub mod server;
pub mod util;
pub mod world;

pub mod props;

/// Single entry point: the driver runs the test binary with
/// `--exact vh::verif_main --nocapture` and selects the workload through environment variables.
#[test]
fn verif_main() {
    let prop = match std::env::var("VERIF_PROP") {
        Ok(p) => p,
        Err(_) => return, // not invoked by the driver (e.g. plain `cargo test`): nothing to do
    };
    let cfg = out::RunCfg::from_env();
    util::install_panic_hook();
    let _ = env_logger::builder().is_test(false).try_init();
    let out = out::Out::create(&cfg);
    props::dispatch(&prop, &cfg, &out);
    out.finish();
}
