//! Small deterministic RNG (splitmix64 / xoshiro256**). Own implementation so that the harness does
//! not depend on which `rand` version the repository resolves.

#[derive(Clone)]
pub struct Rng {
    s: [u64; 4],
}

fn splitmix(x: &mut u64) -> u64 {
    *x = x.wrapping_add(0x9E3779B97F4A7C15);
    let mut z = *x;
    z = (z ^ (z >> 30)).wrapping_mul(0xBF58476D1CE4E5B9);
    z = (z ^ (z >> 27)).wrapping_mul(0x94D049BB133111EB);
    z ^ (z >> 31)
}

pub fn mix(a: u64, b: u64) -> u64 {
    let mut x = a ^ b.rotate_left(32) ^ 0xD6E8FEB86659FD93;
    let r = splitmix(&mut x);
    splitmix(&mut (r ^ b))
}

impl Rng {
    pub fn new(seed: u64) -> Self {
        let mut x = seed;
        let s = [splitmix(&mut x), splitmix(&mut x), splitmix(&mut x), splitmix(&mut x)];
        Rng { s }
    }
    pub fn fork(&mut self, salt: u64) -> Rng {
        Rng::new(mix(self.next_u64(), salt))
    }
    pub fn next_u64(&mut self) -> u64 {
        let result = self.s[1].wrapping_mul(5).rotate_left(7).wrapping_mul(9);
        let t = self.s[1] << 17;
        self.s[2] ^= self.s[0];
        self.s[3] ^= self.s[1];
        self.s[1] ^= self.s[2];
        self.s[0] ^= self.s[3];
        self.s[2] ^= t;
        self.s[3] = self.s[3].rotate_left(45);
        result
    }
    /// uniform in [0, n)
    pub fn below(&mut self, n: u64) -> u64 {
        if n == 0 {
            return 0;
        }
        self.next_u64() % n
    }
    /// uniform in [lo, hi] inclusive
    pub fn range(&mut self, lo: u64, hi: u64) -> u64 {
        if hi <= lo {
            return lo;
        }
        lo + self.below(hi - lo + 1)
    }
    pub fn chance(&mut self, num: u64, den: u64) -> bool {
        self.below(den) < num
    }
    pub fn pick<'a, T>(&mut self, v: &'a [T]) -> &'a T {
        &v[self.below(v.len() as u64) as usize]
    }
    pub fn pick_idx(&mut self, len: usize) -> usize {
        self.below(len as u64) as usize
    }
    pub fn bytes(&mut self, n: usize) -> Vec<u8> {
        let mut v = Vec::with_capacity(n);
        while v.len() < n {
            let x = self.next_u64().to_le_bytes();
            let take = (n - v.len()).min(8);
            v.extend_from_slice(&x[..take]);
        }
        v
    }
    pub fn shuffle<T>(&mut self, v: &mut [T]) {
        for i in (1..v.len()).rev() {
            let j = self.below(i as u64 + 1) as usize;
            v.swap(i, j);
        }
    }
}
