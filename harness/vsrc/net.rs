//! RecNet: thread-safe recording implementation of CKBProtocolContext (the "network").

use std::collections::HashMap;
use std::future::Future;
use std::pin::Pin;
use std::sync::{Arc, Mutex};
use std::time::Duration;

use ckb_network::{
    async_trait, bytes::Bytes as P2pBytes, Behaviour, CKBProtocolContext, Error, Peer, PeerIndex,
    ProtocolId, SupportProtocols, TargetSession,
};

#[derive(Clone, Debug)]
pub struct Sent {
    pub seq: u64,
    /// virtual time (ckb_systemtime under faketime) at which the client handed the message to the network
    pub at: u64,
    pub proto: ProtocolId,
    pub peer: PeerIndex,
    pub data: P2pBytes,
}

#[derive(Default)]
pub struct NetLogInner {
    pub seq: u64,
    /// outbound messages not yet taken by the scheduler
    pub outbox: Vec<Sent>,
    pub bans: Vec<(u64, PeerIndex, String)>,
    pub disconnects: Vec<(u64, PeerIndex, String)>,
    pub total_sent: u64,
    pub peers: HashMap<PeerIndex, Peer>,
    /// fault injection: sessions that are closing - every send to them fails (as tentacle reports for a session whose channel is
    /// gone) until the scheduler delivers the `disconnected` callback
    pub failing: std::collections::HashSet<PeerIndex>,
    pub failed_sends: u64,
}

#[derive(Clone, Default)]
pub struct NetLog(pub Arc<Mutex<NetLogInner>>);

impl NetLog {
    pub fn take_outbox(&self) -> Vec<Sent> {
        std::mem::take(&mut self.0.lock().unwrap().outbox)
    }
    pub fn take_bans(&self) -> Vec<(u64, PeerIndex, String)> {
        std::mem::take(&mut self.0.lock().unwrap().bans)
    }
    pub fn take_disconnects(&self) -> Vec<(u64, PeerIndex, String)> {
        std::mem::take(&mut self.0.lock().unwrap().disconnects)
    }
    pub fn bans_len(&self) -> usize {
        self.0.lock().unwrap().bans.len()
    }
    pub fn set_peer(&self, idx: PeerIndex, peer: Peer) {
        self.0.lock().unwrap().peers.insert(idx, peer);
    }
    pub fn remove_peer(&self, idx: PeerIndex) {
        let mut g = self.0.lock().unwrap();
        g.peers.remove(&idx);
        g.failing.remove(&idx);
    }
    pub fn set_failing(&self, idx: PeerIndex) {
        self.0.lock().unwrap().failing.insert(idx);
    }
    pub fn failed_sends(&self) -> u64 {
        self.0.lock().unwrap().failed_sends
    }
}

pub struct RecNet {
    pub proto: SupportProtocols,
    pub log: NetLog,
}

impl RecNet {
    pub fn new(proto: SupportProtocols, log: NetLog) -> Arc<dyn CKBProtocolContext + Sync> {
        Arc::new(RecNet { proto, log })
    }
    fn push(&self, p: ProtocolId, i: PeerIndex, d: P2pBytes) -> Result<(), Error> {
        let mut g = self.log.0.lock().unwrap();
        if g.failing.contains(&i) {
            g.failed_sends += 1;
            return Err(Error::Io(std::io::Error::new(std::io::ErrorKind::BrokenPipe, "session is closing")));
        }
        g.seq += 1;
        g.total_sent += 1;
        let seq = g.seq;
        g.outbox.push(Sent { seq, at: ckb_systemtime::unix_time_as_millis(), proto: p, peer: i, data: d });
        Ok(())
    }
}

#[async_trait]
impl CKBProtocolContext for RecNet {
    fn ckb2023(&self) -> bool {
        false
    }
    async fn set_notify(&self, _i: Duration, _t: u64) -> Result<(), Error> {
        Ok(())
    }
    async fn remove_notify(&self, _t: u64) -> Result<(), Error> {
        Ok(())
    }
    async fn async_quick_send_message(&self, p: ProtocolId, i: PeerIndex, d: P2pBytes) -> Result<(), Error> {
        self.send_message(p, i, d)
    }
    async fn async_quick_send_message_to(&self, i: PeerIndex, d: P2pBytes) -> Result<(), Error> {
        self.send_message_to(i, d)
    }
    async fn async_quick_filter_broadcast(&self, _t: TargetSession, _d: P2pBytes) -> Result<(), Error> {
        Ok(())
    }
    async fn async_future_task(
        &self,
        _t: Pin<Box<dyn Future<Output = ()> + 'static + Send>>,
        _b: bool,
    ) -> Result<(), Error> {
        Ok(())
    }
    async fn async_send_message(&self, p: ProtocolId, i: PeerIndex, d: P2pBytes) -> Result<(), Error> {
        self.send_message(p, i, d)
    }
    async fn async_send_message_to(&self, i: PeerIndex, d: P2pBytes) -> Result<(), Error> {
        self.send_message_to(i, d)
    }
    async fn async_filter_broadcast(&self, _t: TargetSession, _d: P2pBytes) -> Result<(), Error> {
        Ok(())
    }
    async fn async_disconnect(&self, i: PeerIndex, m: &str) -> Result<(), Error> {
        self.disconnect(i, m)
    }
    fn quick_send_message(&self, p: ProtocolId, i: PeerIndex, d: P2pBytes) -> Result<(), Error> {
        self.send_message(p, i, d)
    }
    fn quick_send_message_to(&self, i: PeerIndex, d: P2pBytes) -> Result<(), Error> {
        self.send_message_to(i, d)
    }
    fn quick_filter_broadcast(&self, _t: TargetSession, _d: P2pBytes) -> Result<(), Error> {
        Ok(())
    }
    fn future_task(&self, _t: Pin<Box<dyn Future<Output = ()> + 'static + Send>>, _b: bool) -> Result<(), Error> {
        Ok(())
    }
    fn send_message(&self, p: ProtocolId, i: PeerIndex, d: P2pBytes) -> Result<(), Error> {
        self.push(p, i, d)
    }
    fn send_message_to(&self, i: PeerIndex, d: P2pBytes) -> Result<(), Error> {
        self.push(self.protocol_id(), i, d)
    }
    fn filter_broadcast(&self, _t: TargetSession, _d: P2pBytes) -> Result<(), Error> {
        Ok(())
    }
    fn disconnect(&self, i: PeerIndex, m: &str) -> Result<(), Error> {
        let mut g = self.log.0.lock().unwrap();
        g.seq += 1;
        let seq = g.seq;
        g.disconnects.push((seq, i, m.to_string()));
        Ok(())
    }
    fn get_peer(&self, i: PeerIndex) -> Option<Peer> {
        self.log.0.lock().unwrap().peers.get(&i).cloned()
    }
    fn with_peer_mut(&self, _i: PeerIndex, _f: Box<dyn FnOnce(&mut Peer)>) {}
    fn connected_peers(&self) -> Vec<PeerIndex> {
        self.log.0.lock().unwrap().peers.keys().cloned().collect()
    }
    fn report_peer(&self, _i: PeerIndex, _b: Behaviour) {}
    fn ban_peer(&self, i: PeerIndex, _d: Duration, r: String) {
        let mut g = self.log.0.lock().unwrap();
        g.seq += 1;
        let seq = g.seq;
        g.bans.push((seq, i, r));
    }
    fn protocol_id(&self) -> ProtocolId {
        self.proto.protocol_id()
    }
}

/// Copyable protocol tag (SupportProtocols is not Copy)
#[derive(Clone, Copy, Debug, PartialEq, Eq, Hash, PartialOrd, Ord)]
pub enum P {
    Lc,
    Filter,
    Sync,
    Relay2,
    Relay3,
}

impl P {
    pub fn sp(self) -> SupportProtocols {
        match self {
            P::Lc => SupportProtocols::LightClient,
            P::Filter => SupportProtocols::Filter,
            P::Sync => SupportProtocols::Sync,
            P::Relay2 => SupportProtocols::RelayV2,
            P::Relay3 => SupportProtocols::RelayV3,
        }
    }
    pub fn id(self) -> ProtocolId {
        self.sp().protocol_id()
    }
    pub fn of(id: ProtocolId) -> Option<P> {
        [P::Lc, P::Filter, P::Sync, P::Relay2, P::Relay3].into_iter().find(|p| p.id() == id)
    }
    pub fn code(self) -> u8 {
        self as u8
    }
}
