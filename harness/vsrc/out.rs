//! Result stream of one shard: counters, distinct cells, samples, violations.
//! Written as JSON lines to VERIF_OUT; violations are flushed immediately, the summary at the end.

use serde_json::{json, Value};
use std::collections::{BTreeMap, BTreeSet};
use std::fs::File;
use std::io::Write;
use std::sync::Mutex;
use std::time::Instant;

#[derive(Clone, Debug)]
pub struct RunCfg {
    pub seed: u64,
    pub shard: u64,
    pub shards: u64,
    pub tier: String,
    /// abstract budget unit: number of scenarios (interpreted per workload)
    pub budget: u64,
    /// wall-clock cap for the workload loop in seconds (soft: checked between scenarios)
    pub time_cap_s: u64,
    pub out_path: String,
    /// replay: run only this scenario index (of this shard)
    pub only_scenario: Option<u64>,
    /// run directed witness scenarios only
    pub witness: Option<String>,
}

impl RunCfg {
    pub fn from_env() -> Self {
        let g = |k: &str, d: u64| std::env::var(k).ok().and_then(|v| v.parse().ok()).unwrap_or(d);
        RunCfg {
            seed: g("VERIF_SEED", 1),
            shard: g("VERIF_SHARD", 0),
            shards: g("VERIF_SHARDS", 1),
            tier: std::env::var("VERIF_TIER").unwrap_or_else(|_| "quick".into()),
            budget: g("VERIF_BUDGET", 10),
            time_cap_s: g("VERIF_TIME_CAP", 120),
            out_path: std::env::var("VERIF_OUT").unwrap_or_else(|_| "/dev/stdout".into()),
            only_scenario: std::env::var("VERIF_SCENARIO").ok().and_then(|v| v.parse().ok()),
            witness: std::env::var("VERIF_WITNESS").ok(),
        }
    }
    pub fn shard_seed(&self) -> u64 {
        self.seed.wrapping_mul(1000).wrapping_add(self.shard)
    }
    pub fn scenario_seed(&self, k: u64) -> u64 {
        super::rng::mix(self.shard_seed(), k)
    }
}

struct Inner {
    file: File,
    counters: BTreeMap<String, u64>,
    cells: BTreeSet<String>,
    samples: BTreeMap<String, Vec<Value>>,
    violations: u64,
    viol_sigs: BTreeMap<String, u64>,
    notes: Vec<String>,
    maxes: BTreeMap<String, u64>,
}

pub struct Out {
    inner: Mutex<Inner>,
    start: Instant,
    pub cfg: RunCfg,
}

impl Out {
    pub fn create(cfg: &RunCfg) -> Self {
        let file = File::create(&cfg.out_path).expect("create VERIF_OUT");
        Out {
            inner: Mutex::new(Inner {
                file,
                counters: BTreeMap::new(),
                cells: BTreeSet::new(),
                samples: BTreeMap::new(),
                violations: 0,
                viol_sigs: BTreeMap::new(),
                notes: vec![],
                maxes: BTreeMap::new(),
            }),
            start: Instant::now(),
            cfg: cfg.clone(),
        }
    }
    pub fn elapsed_s(&self) -> u64 {
        self.start.elapsed().as_secs()
    }
    pub fn time_up(&self) -> bool {
        self.elapsed_s() >= self.cfg.time_cap_s
    }
    pub fn count(&self, key: &str, n: u64) {
        let mut g = self.inner.lock().unwrap();
        *g.counters.entry(key.to_string()).or_insert(0) += n;
    }
    pub fn max(&self, key: &str, v: u64) {
        let mut g = self.inner.lock().unwrap();
        let e = g.maxes.entry(key.to_string()).or_insert(0);
        if v > *e {
            *e = v;
        }
    }
    /// one oracle judgement
    pub fn eval(&self, n: u64) {
        self.count("evaluations", n);
    }
    /// a non-trivial judgement that belongs to cell `k`
    pub fn cell(&self, k: &str) {
        let mut g = self.inner.lock().unwrap();
        if g.cells.len() < 200_000 {
            g.cells.insert(k.to_string());
        }
    }
    /// keep at most `cap` samples per class
    pub fn sample(&self, class: &str, cap: usize, v: impl FnOnce() -> Value) {
        let mut g = self.inner.lock().unwrap();
        let e = g.samples.entry(class.to_string()).or_default();
        if e.len() < cap {
            e.push(v());
        }
    }
    pub fn note(&self, s: &str) {
        let mut g = self.inner.lock().unwrap();
        if g.notes.len() < 50 {
            g.notes.push(s.to_string());
        }
    }
    /// record a violation (flushed immediately). At most 5 full records per signature are kept.
    pub fn violation(&self, rule: &str, sig: &str, detail: Value, scenario: u64) {
        let mut g = self.inner.lock().unwrap();
        g.violations += 1;
        let c = g.viol_sigs.entry(sig.to_string()).or_insert(0);
        *c += 1;
        if *c <= 3 {
            let rec = json!({
                "t": "violation", "rule": rule, "sig": sig, "detail": detail,
                "seed": self.cfg.seed, "shard": self.cfg.shard, "shards": self.cfg.shards,
                "scenario": scenario, "budget": self.cfg.budget, "tier": self.cfg.tier,
            });
            let _ = writeln!(g.file, "{}", rec);
            let _ = g.file.flush();
        }
    }
    pub fn inconclusive(&self, why: &str) {
        let mut g = self.inner.lock().unwrap();
        let rec = json!({"t": "inconclusive", "why": why});
        let _ = writeln!(g.file, "{}", rec);
        let _ = g.file.flush();
    }
    pub fn finish(&self) {
        let mut g = self.inner.lock().unwrap();
        let rec = json!({
            "t": "summary",
            "counters": g.counters,
            "maxes": g.maxes,
            "cells": g.cells.iter().cloned().collect::<Vec<_>>(),
            "samples": g.samples,
            "violations": g.violations,
            "viol_sigs": g.viol_sigs,
            "notes": g.notes,
            "wall_s": self.start.elapsed().as_secs_f64(),
        });
        let _ = writeln!(g.file, "{}", rec);
        let _ = g.file.flush();
    }
}

pub fn hex(b: &[u8]) -> String {
    let mut s = String::with_capacity(b.len() * 2);
    for x in b {
        s.push_str(&format!("{:02x}", x));
    }
    s
}

pub fn hex_short(b: &[u8]) -> String {
    if b.len() <= 48 {
        hex(b)
    } else {
        format!("{}..({}B)", hex(&b[..48]), b.len())
    }
}
