//! The client under test: the four real protocol handlers + RPC impls over one real RocksDB dir.

use std::path::{Path, PathBuf};
use std::sync::atomic::{AtomicU64, Ordering};
use std::sync::{Arc, RwLock};

use ckb_chain_spec::consensus::Consensus;
use ckb_network::{bytes::Bytes as P2pBytes, CKBProtocolContext, CKBProtocolHandler, PeerIndex, SupportProtocols};
use ckb_types::{core::BlockView, packed, prelude::*, U256};
use rocksdb::{ops::Iterate, IteratorMode};

use crate::protocols::{FilterProtocol, LightClientProtocol, Peers, PendingTxs, RelayProtocol, SyncProtocol};
use crate::service::{BlockFilterRpcImpl, ChainRpcImpl, TransactionRpcImpl};
use crate::storage::{Storage, StorageWithChainData};

use super::net::{NetLog, RecNet, P};
use super::util::{guarded, Unwound};

#[derive(Clone, Debug)]
pub struct ClientCfg {
    pub last_n: u64,
    pub cp_interval: u64,
    pub max_outbound: u32,
    pub mmr_epoch: u64,
    pub blocks_in_transit: usize,
}

impl Default for ClientCfg {
    fn default() -> Self {
        ClientCfg { last_n: 5, cp_interval: 8, max_outbound: 1, mmr_epoch: 0, blocks_in_transit: 16 }
    }
}

static DIR_COUNTER: AtomicU64 = AtomicU64::new(0);

pub fn scratch_root() -> PathBuf {
    let base = if Path::new("/dev/shm").is_dir() { PathBuf::from("/dev/shm") } else { std::env::temp_dir() };
    base.join(format!("clcverif-{}", std::process::id()))
}

pub fn fresh_dir() -> PathBuf {
    let n = DIR_COUNTER.fetch_add(1, Ordering::SeqCst);
    // the child process of C08's real-abort cross-check keeps its store where the parent can find it
    if n == 0 {
        if let Ok(fixed) = std::env::var("VERIF_FIXED_DIR") {
            let d = PathBuf::from(fixed);
            let _ = std::fs::remove_dir_all(&d);
            std::fs::create_dir_all(&d).expect("create fixed dir");
            return d;
        }
    }
    let d = scratch_root().join(format!("db{}", n));
    let _ = std::fs::remove_dir_all(&d);
    std::fs::create_dir_all(&d).expect("create scratch dir");
    d
}

pub fn copy_dir(from: &Path) -> PathBuf {
    let to = fresh_dir();
    for e in std::fs::read_dir(from).expect("read dir") {
        let e = e.unwrap();
        if e.file_type().unwrap().is_file() && e.file_name() != "LOCK" {
            std::fs::copy(e.path(), to.join(e.file_name())).expect("copy db file");
        }
    }
    to
}

pub fn cleanup_scratch() {
    let _ = std::fs::remove_dir_all(scratch_root());
}

pub const LC_TOKENS: [u64; 3] = [0, 1, 2];
pub const FILTER_TOKENS: [u64; 3] = [0, 1, 2];

pub struct Client {
    pub dir: PathBuf,
    pub cfg: ClientCfg,
    pub consensus: Consensus,
    pub storage: Storage,
    pub peers: Arc<Peers>,
    pub pending: Arc<RwLock<PendingTxs>>,
    pub lc: LightClientProtocol,
    pub filter: FilterProtocol,
    pub(crate) sync: SyncProtocol,
    pub(crate) relay2: RelayProtocol,
    pub(crate) relay3: RelayProtocol,
    pub log: NetLog,
    pub nc_lc: Arc<dyn CKBProtocolContext + Sync>,
    pub nc_filter: Arc<dyn CKBProtocolContext + Sync>,
    pub nc_sync: Arc<dyn CKBProtocolContext + Sync>,
    pub nc_relay2: Arc<dyn CKBProtocolContext + Sync>,
    pub nc_relay3: Arc<dyn CKBProtocolContext + Sync>,
    pub rt: tokio::runtime::Runtime,
}

pub fn new_lc(storage: &Storage, peers: &Arc<Peers>, consensus: &Consensus, cfg: &ClientCfg) -> LightClientProtocol {
    let mut lc = LightClientProtocol::new(storage.clone(), Arc::clone(peers), consensus.clone());
    lc.set_last_n_blocks(cfg.last_n);
    lc.set_mmr_activated_epoch(cfg.mmr_epoch);
    lc.set_init_blocks_in_transit_per_peer(cfg.blocks_in_transit);
    lc
}

impl Client {
    /// What `subcmds.rs` does at start: open, init genesis, build Peers from the stored check point.
    pub fn open(dir: &Path, genesis: &BlockView, consensus: &Consensus, cfg: &ClientCfg) -> Client {
        let storage = Storage::new(dir);
        storage.init_genesis_block(genesis.data());
        let peers = Arc::new(Peers::new(cfg.max_outbound, cfg.cp_interval, storage.get_last_check_point()));
        let pending = Arc::new(RwLock::new(PendingTxs::default()));
        let lc = new_lc(&storage, &peers, consensus, cfg);
        let filter = FilterProtocol::new(storage.clone(), Arc::clone(&peers));
        let sync = SyncProtocol::new(storage.clone(), Arc::clone(&peers));
        let relay2 = RelayProtocol::new(pending.clone(), Arc::clone(&peers), consensus.clone(), storage.clone(), false);
        let relay3 = RelayProtocol::new(pending.clone(), Arc::clone(&peers), consensus.clone(), storage.clone(), true);
        let log = NetLog::default();
        Client {
            dir: dir.to_path_buf(),
            cfg: cfg.clone(),
            consensus: consensus.clone(),
            storage,
            peers,
            pending,
            lc,
            filter,
            sync,
            relay2,
            relay3,
            nc_lc: RecNet::new(SupportProtocols::LightClient, log.clone()),
            nc_filter: RecNet::new(SupportProtocols::Filter, log.clone()),
            nc_sync: RecNet::new(SupportProtocols::Sync, log.clone()),
            nc_relay2: RecNet::new(SupportProtocols::RelayV2, log.clone()),
            nc_relay3: RecNet::new(SupportProtocols::RelayV3, log.clone()),
            log,
            rt: tokio::runtime::Builder::new_current_thread().build().unwrap(),
        }
    }

    pub fn swc(&self) -> StorageWithChainData {
        StorageWithChainData::new(self.storage.clone(), Arc::clone(&self.peers), Arc::clone(&self.pending))
    }
    pub fn rpc_filter(&self) -> BlockFilterRpcImpl {
        BlockFilterRpcImpl { swc: self.swc() }
    }
    pub fn rpc_tx(&self) -> TransactionRpcImpl {
        TransactionRpcImpl { swc: self.swc(), consensus: Arc::new(self.consensus.clone()) }
    }
    pub fn rpc_chain(&self) -> ChainRpcImpl {
        ChainRpcImpl { swc: self.swc(), consensus: Arc::new(self.consensus.clone()) }
    }

    pub fn connected(&mut self, peer: PeerIndex) -> Result<(), Unwound> {
        let Client { rt, lc, filter, sync, nc_lc, nc_filter, nc_sync, .. } = self;
        guarded(|| {
            rt.block_on(lc.connected(nc_lc.clone(), peer, "2"));
            rt.block_on(filter.connected(nc_filter.clone(), peer, "2"));
            rt.block_on(sync.connected(nc_sync.clone(), peer, "2"));
        })
    }

    pub fn disconnected(&mut self, peer: PeerIndex) -> Result<(), Unwound> {
        let Client { rt, lc, filter, sync, relay2, relay3, nc_lc, nc_filter, nc_sync, nc_relay2, nc_relay3, .. } = self;
        guarded(|| {
            rt.block_on(lc.disconnected(nc_lc.clone(), peer));
            rt.block_on(filter.disconnected(nc_filter.clone(), peer));
            rt.block_on(sync.disconnected(nc_sync.clone(), peer));
            rt.block_on(relay2.disconnected(nc_relay2.clone(), peer));
            rt.block_on(relay3.disconnected(nc_relay3.clone(), peer));
        })
    }

    pub fn received(&mut self, proto: P, peer: PeerIndex, data: P2pBytes) -> Result<(), Unwound> {
        let Client { rt, lc, filter, sync, relay2, relay3, nc_lc, nc_filter, nc_sync, nc_relay2, nc_relay3, .. } = self;
        guarded(|| match proto {
            P::Lc => rt.block_on(lc.received(nc_lc.clone(), peer, data)),
            P::Filter => rt.block_on(filter.received(nc_filter.clone(), peer, data)),
            P::Sync => rt.block_on(sync.received(nc_sync.clone(), peer, data)),
            P::Relay2 => rt.block_on(relay2.received(nc_relay2.clone(), peer, data)),
            P::Relay3 => rt.block_on(relay3.received(nc_relay3.clone(), peer, data)),
        })
    }

    pub fn notify(&mut self, proto: P, token: u64) -> Result<(), Unwound> {
        let Client { rt, lc, filter, nc_lc, nc_filter, .. } = self;
        guarded(|| match proto {
            P::Lc => rt.block_on(lc.notify(nc_lc.clone(), token)),
            P::Filter => rt.block_on(filter.notify(nc_filter.clone(), token)),
            _ => {}
        })
    }

    /// full key-value dump of the store
    pub fn dump(&self) -> Vec<(Vec<u8>, Vec<u8>)> {
        dump_db(&self.storage)
    }

    pub fn stored_tip(&self) -> (U256, packed::Header) {
        self.storage.get_last_state()
    }
}

pub fn dump_db(storage: &Storage) -> Vec<(Vec<u8>, Vec<u8>)> {
    storage.db.iterator(IteratorMode::Start).map(|(k, v)| (k.to_vec(), v.to_vec())).collect()
}

/// key prefixes (first byte) of storage.rs
pub mod kp {
    pub const TX_HASH: u8 = 0;
    pub const CELL_LOCK: u8 = 32;
    pub const CELL_TYPE: u8 = 64;
    pub const TX_LOCK: u8 = 96;
    pub const TX_TYPE: u8 = 128;
    pub const BLOCK_HASH: u8 = 160;
    pub const BLOCK_NUMBER: u8 = 192;
    pub const CHECK_POINT: u8 = 208;
    pub const META: u8 = 224;
}

pub fn meta_key(name: &str) -> Vec<u8> {
    let mut k = vec![kp::META];
    k.extend_from_slice(name.as_bytes());
    k
}

/// Dump restricted to the index / tx / header keyspaces (what get_cells, get_transactions,
/// get_transaction, get_header read), i.e. without sync bookkeeping (Meta, check points).
pub fn dump_index(storage: &Storage) -> Vec<(Vec<u8>, Vec<u8>)> {
    dump_db(storage).into_iter().filter(|(k, _)| k[0] < kp::CHECK_POINT).collect()
}

pub fn digest_kv(kv: &[(Vec<u8>, Vec<u8>)]) -> [u8; 32] {
    let mut h = ckb_hash::new_blake2b();
    for (k, v) in kv {
        h.update(&(k.len() as u32).to_le_bytes());
        h.update(k);
        h.update(&(v.len() as u32).to_le_bytes());
        h.update(v);
    }
    let mut out = [0u8; 32];
    h.finalize(&mut out);
    out
}
