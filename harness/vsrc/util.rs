//! Panic capture at the production boundary.

use std::cell::RefCell;
use std::panic::{catch_unwind, AssertUnwindSafe};
use std::sync::Once;

#[derive(Clone, Debug)]
pub struct PanicInfo {
    pub message: String,
    pub location: String,
    /// innermost frame inside /repo/src: (file, function)
    pub repo_frame: (String, String),
    pub backtrace_head: Vec<String>,
}

thread_local! {
    static LAST_PANIC: RefCell<Option<PanicInfo>> = RefCell::new(None);
    static QUIET: RefCell<bool> = RefCell::new(true);
}

static HOOK: Once = Once::new();

/// Marker payload used by the crash injector (C08): "the process died here".
pub struct CrashHere(pub u64, pub &'static str);
/// Marker payload used to unwind a parked thread at the end of a C17 experiment.
pub struct AbortExperiment;

fn repo_src_prefix() -> String {
    let repo = std::env::var("VERIF_REPO").unwrap_or_else(|_| "/repo".into());
    format!("{}/src/", repo)
}

fn parse_backtrace(bt: &str) -> ((String, String), Vec<String>) {
    // format: "  N: symbol\n             at path:line:col"
    let prefix = repo_src_prefix();
    let mut frames: Vec<(String, String)> = vec![];
    let mut cur_sym = String::new();
    for line in bt.lines() {
        let t = line.trim();
        if let Some(rest) = t.strip_prefix("at ") {
            frames.push((cur_sym.clone(), rest.to_string()));
        } else if let Some(pos) = t.find(": ") {
            if t[..pos].chars().all(|c| c.is_ascii_digit()) {
                cur_sym = t[pos + 2..].to_string();
            }
        }
    }
    let mut repo_frame = (String::new(), String::new());
    for (sym, at) in &frames {
        if at.starts_with(&prefix) && !at.contains("/verif_hook.rs") {
            let file = at[prefix.len()..].split(':').next().unwrap_or("").to_string();
            // strip the hash suffix and crate name
            let mut f = sym.clone();
            if let Some(p) = f.rfind("::h") {
                if f[p + 3..].chars().all(|c| c.is_ascii_hexdigit()) {
                    f.truncate(p);
                }
            }
            let f = f.replace("clc_verif::", "");
            repo_frame = (file, f);
            break;
        }
    }
    let head = frames
        .iter()
        .filter(|(s, _)| !s.contains("std::") && !s.contains("core::") && !s.contains("backtrace"))
        .take(14)
        .map(|(s, a)| format!("{} @ {}", s, a))
        .collect();
    (repo_frame, head)
}

/// name of the storage.rs function that is about to write (called from inside the before_write hook): the innermost
/// frame in storage.rs that is not the batch commit helper itself, e.g. "filter_block", "rollback_to_block"
pub fn storage_op_from_backtrace() -> String {
    let bt = std::backtrace::Backtrace::force_capture().to_string();
    let prefix = repo_src_prefix();
    let mut cur_sym = String::new();
    for line in bt.lines() {
        let t = line.trim();
        if let Some(rest) = t.strip_prefix("at ") {
            if rest.starts_with(&prefix) && rest[prefix.len()..].starts_with("storage.rs") {
                let name = short_fn(cur_sym.rsplit_once("::h").map(|(a, _)| a).unwrap_or(&cur_sym));
                let last = name.rsplit("::").next().unwrap_or("").to_string();
                if last != "commit" && last != "before_write" && !last.is_empty() {
                    return last;
                }
            }
        } else if let Some(pos) = t.find(": ") {
            if t[..pos].chars().all(|c| c.is_ascii_digit()) {
                cur_sym = t[pos + 2..].to_string();
            }
        }
    }
    "?".to_string()
}

pub fn install_panic_hook() {
    HOOK.call_once(|| {
        std::panic::set_hook(Box::new(|info| {
            let payload = info.payload();
            if payload.is::<CrashHere>() || payload.is::<AbortExperiment>() {
                return; // injected fault, not a panic of the code under test
            }
            let message = if let Some(s) = payload.downcast_ref::<&str>() {
                s.to_string()
            } else if let Some(s) = payload.downcast_ref::<String>() {
                s.clone()
            } else {
                "<non-string payload>".to_string()
            };
            let location = info
                .location()
                .map(|l| format!("{}:{}", l.file(), l.line()))
                .unwrap_or_default();
            let bt = std::backtrace::Backtrace::force_capture().to_string();
            let (repo_frame, backtrace_head) = parse_backtrace(&bt);
            let quiet = QUIET.with(|q| *q.borrow()) && std::env::var("VERIF_LOUD").is_err();
            if !quiet {
                eprintln!("PANIC {} at {}\n{}", message, location, bt);
            }
            LAST_PANIC.with(|p| {
                *p.borrow_mut() = Some(PanicInfo { message, location, repo_frame, backtrace_head });
            });
        }));
    });
}

pub fn set_quiet(q: bool) {
    QUIET.with(|c| *c.borrow_mut() = q);
}

pub enum Unwound {
    Panic(PanicInfo),
    Crash(u64, &'static str),
    Abort,
}

/// Run `f` at the boundary; a panic of the code under test is returned with its captured info.
pub fn guarded<T>(f: impl FnOnce() -> T) -> Result<T, Unwound> {
    LAST_PANIC.with(|p| *p.borrow_mut() = None);
    match catch_unwind(AssertUnwindSafe(f)) {
        Ok(v) => Ok(v),
        Err(payload) => {
            if let Some(c) = payload.downcast_ref::<CrashHere>() {
                return Err(Unwound::Crash(c.0, c.1));
            }
            if payload.is::<AbortExperiment>() {
                return Err(Unwound::Abort);
            }
            let info = LAST_PANIC.with(|p| p.borrow_mut().take()).unwrap_or(PanicInfo {
                message: "<panic without captured info>".into(),
                location: String::new(),
                repo_frame: (String::new(), String::new()),
                backtrace_head: vec![],
            });
            Err(Unwound::Panic(info))
        }
    }
}

/// message with digits and hex runs stripped (stable across inputs)
pub fn normalize_msg(m: &str) -> String {
    let mut out = String::new();
    let mut last_hash = false;
    for c in m.chars().take(160) {
        if c.is_ascii_digit() {
            if !last_hash {
                out.push('#');
                last_hash = true;
            }
        } else if last_hash && (c.is_ascii_hexdigit() || c == 'x') {
            // continue hex run
        } else {
            out.push(c);
            last_hash = false;
        }
    }
    out.chars().take(90).collect()
}

impl PanicInfo {
    /// signature: innermost repo frame + normalized message + panic site crate
    pub fn signature(&self, prop: &str, ctx: &str) -> String {
        let site_crate = if self.location.contains("/repo/src/") || self.location.starts_with("src/") {
            "repo".to_string()
        } else {
            // .../registry/src/<index>/<crate>-<ver>/src/...
            self.location
                .split("/registry/src/")
                .nth(1)
                .and_then(|r| r.split('/').nth(1))
                .map(|c| c.rsplitn(2, '-').last().unwrap_or(c).to_string())
                .unwrap_or_else(|| "std".to_string())
        };
        format!(
            "{}|panic|{}|{}::{}|{}|{}",
            prop,
            ctx,
            self.repo_frame.0,
            short_fn(&self.repo_frame.1),
            site_crate,
            normalize_msg(&self.message)
        )
    }
}

fn short_fn(f: &str) -> String {
    // keep the last two path segments, drop closures
    let parts: Vec<&str> = f.split("::").filter(|p| !p.starts_with("{{closure}}") && !p.starts_with("{closure")).collect();
    let n = parts.len();
    if n >= 2 {
        format!("{}::{}", parts[n - 2], parts[n - 1])
    } else {
        f.to_string()
    }
}

pub const LONG_FORK_PANIC: &str = "long fork detected";
