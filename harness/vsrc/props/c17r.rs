//! C17, reader clause: "readers always see an index and tip from one point in time".
//! A reader thread runs one paged RPC query (one call = one snapshot) and is parked at a read-side pause
//! point (hook `read:*`: per visited index entry, or right before the tip is read). While it is parked the
//! main thread drives a complete writer sequence on the same store (chain growth indexed through the real
//! handlers, or a whole-network fork switch with index rollback). At every storage write of that sequence
//! the same query is evaluated on the writer's thread: these answers are the point-in-time states S_0..S_W.
//! The reader is then released; its answer must be one of them (and it must not panic).

use std::sync::mpsc::{channel, RecvTimeoutError};
use std::sync::{Arc, RwLock};
use std::time::Duration;

use ckb_types::prelude::*;
use serde_json::{json, Value};

use crate::protocols::{Peers, PendingTxs};
use crate::service::{BlockFilterRpc, BlockFilterRpcImpl, Order, SearchKeyFilter};
use crate::storage::{Storage, StorageWithChainData};

use super::super::chain::{lock_script, type_script, Chain};
use super::super::client::ClientCfg;
use super::super::out::{Out, RunCfg};
use super::super::refidx::{search_key, Registered, ST};
use super::super::rng::Rng;
use super::super::util::{guarded, AbortExperiment, Unwound};
use super::super::world::{NoHook, World};
use super::common::*;

#[derive(Clone, Copy, Debug, PartialEq)]
pub enum Query {
    CellsAsc,
    CellsDesc,
    TxsAsc,
    TxsDesc,
    TxsGrouped,
    /// search by the lock script, filter.script = the registered type script: every visited entry is
    /// confirmed by a second lookup (the Tx*Script key of the filter script)
    TxsFiltered,
    TxsFilteredGrouped,
    Capacity,
}

impl Query {
    fn name(self) -> &'static str {
        match self {
            Query::CellsAsc => "get_cells(asc)",
            Query::CellsDesc => "get_cells(desc)",
            Query::TxsAsc => "get_transactions(asc)",
            Query::TxsDesc => "get_transactions(desc)",
            Query::TxsGrouped => "get_transactions(grouped)",
            Query::TxsFiltered => "get_transactions(asc,filter.script)",
            Query::TxsFilteredGrouped => "get_transactions(grouped,filter.script)",
            Query::Capacity => "get_cells_capacity",
        }
    }
    fn entry_site(self) -> &'static str {
        match self {
            Query::CellsAsc | Query::CellsDesc => "read:get_cells.entry",
            Query::TxsAsc | Query::TxsDesc | Query::TxsGrouped | Query::TxsFiltered | Query::TxsFilteredGrouped => "read:get_transactions.entry",
            Query::Capacity => "read:get_cells_capacity.entry",
        }
    }
}

const QUERIES: [Query; 8] = [Query::CellsAsc, Query::CellsDesc, Query::TxsAsc, Query::TxsDesc, Query::TxsGrouped, Query::TxsFiltered, Query::TxsFilteredGrouped, Query::Capacity];

#[derive(Clone, Copy, Debug, PartialEq)]
enum Writer {
    /// the chain grows by a few blocks: new tip proved, filters, blocks downloaded and indexed
    Grow,
    /// the whole network switches to a branch that forks below the filtered height: rollback, new tip, re-index
    Fork,
    /// growth, then a fork switch, in one writer sequence
    GrowThenFork,
}

#[derive(Clone, Copy, Debug, PartialEq)]
enum Park {
    FirstEntry,
    MiddleEntry,
    LastEntry,
    /// get_cells_capacity only: after the scan, before the tip is read
    BeforeTip,
}

fn rpc_of(storage: &Storage, peers: &Arc<Peers>, pending: &Arc<RwLock<PendingTxs>>) -> BlockFilterRpcImpl {
    BlockFilterRpcImpl { swc: StorageWithChainData::new(storage.clone(), Arc::clone(peers), Arc::clone(pending)) }
}

/// one call of the query (a single page that holds everything), as JSON
fn ask(rpc: &BlockFilterRpcImpl, q: Query) -> Value {
    let script = lock_script(0);
    let big: u32 = 100_000;
    match q {
        Query::CellsAsc | Query::CellsDesc => {
            let order = if q == Query::CellsAsc { Order::Asc } else { Order::Desc };
            let p = rpc.get_cells(search_key(&script, ST::Lock), order, big.into(), None).expect("get_cells");
            json!({"objects": p.objects.iter().map(|c| serde_json::to_value(c).unwrap()).collect::<Vec<_>>(), "cursor": serde_json::to_value(&p.last_cursor).unwrap()})
        }
        Query::TxsAsc | Query::TxsDesc | Query::TxsGrouped | Query::TxsFiltered | Query::TxsFilteredGrouped => {
            let order = if q == Query::TxsDesc { Order::Desc } else { Order::Asc };
            let mut key = search_key(&script, ST::Lock);
            if q == Query::TxsGrouped || q == Query::TxsFilteredGrouped {
                key.group_by_transaction = Some(true);
            }
            if q == Query::TxsFiltered || q == Query::TxsFilteredGrouped {
                key.filter = Some(SearchKeyFilter { script: Some(type_script(0).into()), script_len_range: None, output_data_len_range: None, output_capacity_range: None, block_range: None });
            }
            let p = rpc.get_transactions(key, order, big.into(), None).expect("get_transactions");
            json!({"objects": p.objects.iter().map(|c| serde_json::to_value(c).unwrap()).collect::<Vec<_>>(), "cursor": serde_json::to_value(&p.last_cursor).unwrap()})
        }
        Query::Capacity => {
            let c = rpc.get_cells_capacity(search_key(&script, ST::Lock)).expect("get_cells_capacity");
            serde_json::to_value(&c).unwrap()
        }
    }
}

fn short(v: &Value) -> Value {
    match v.get("objects").and_then(|o| o.as_array()) {
        Some(a) => json!({"entries": a.len(), "digest": super::super::out::hex(&ckb_hash::blake2b_256(v.to_string().as_bytes())[..6])}),
        None => v.clone(),
    }
}

struct Prepared {
    w: World,
    net: HonestNet,
}

fn prepare(seed: u64) -> Option<Prepared> {
    let mut rng = Rng::new(seed);
    let (now, base_ts) = time_base();
    let mut params = gen_params(&mut rng, seed, base_ts);
    params.tx_density = 100;
    params.n_locks = 2;
    params.n_types = 1;
    let len = rng.range(25, 45);
    let ccfg = ClientCfg { last_n: 10, cp_interval: 2000, max_outbound: 1, mmr_epoch: 0, blocks_in_transit: 16 };
    let main = Chain::generate(params, len);
    let mut w = World::new(main, ccfg, seed, now);
    let regs: Registered = vec![(lock_script(0), ST::Lock, 0), (type_script(0), ST::Type, 0)];
    set_scripts(&w, &regs, None);
    w.add_peer(0, true);
    w.connect_all();
    let net = HonestNet::new(0);
    w.run_until(&mut NoHook, 80, |w| w.converged_on(0))?;
    if w.dead {
        return None;
    }
    Some(Prepared { w, net })
}

/// drive the writer sequence to completion on the calling thread; false = it did not converge
fn drive(w: &mut World, net: &mut HonestNet, writer: Writer, salt: u64) -> bool {
    let steps: &[Writer] = match writer {
        Writer::Grow => &[Writer::Grow],
        Writer::Fork => &[Writer::Fork],
        Writer::GrowThenFork => &[Writer::Grow, Writer::Fork],
    };
    for s in steps {
        match s {
            Writer::Grow => net.grow(w, 2),
            _ => {
                let tipn: u64 = w.c().storage.get_tip_header().raw().number().unpack();
                let main_tip = w.chains[net.main].tip();
                if tipn != main_tip || tipn < 6 {
                    return false;
                }
                let at = tipn - 2 - (salt % 2);
                net.fork(w, at, main_tip - at + 2, salt | 1);
                net.grow(w, 1);
            }
        }
        let main = net.main;
        if w.run_until(&mut NoHook, 80, |w| w.converged_on(main)).is_none() || w.dead {
            return false;
        }
    }
    true
}

enum Res {
    Judged { answer: Result<Value, String>, states: Vec<Value>, entries: u64 },
    NotReached,
    Inconclusive(String),
}

fn experiment(seed: u64, q: Query, writer: Writer, park: Park) -> Res {
    let Prepared { mut w, mut net } = match prepare(seed) {
        Some(p) => p,
        None => return Res::Inconclusive("setup".into()),
    };
    let (storage, peers, pending) = {
        let c = w.c();
        (c.storage.clone(), c.peers.clone(), c.pending.clone())
    };
    // how many entries does the query visit? (solo, on this thread)
    let site = if park == Park::BeforeTip { "read:get_cells_capacity.tip" } else { q.entry_site() };
    let visited = std::rc::Rc::new(std::cell::RefCell::new(0u64));
    let v2 = visited.clone();
    crate::verif_hook::install(Box::new(move |s| {
        if s == site {
            *v2.borrow_mut() += 1
        }
    }));
    let rpc = rpc_of(&storage, &peers, &pending);
    let pre = ask(&rpc, q);
    crate::verif_hook::clear();
    let entries = *visited.borrow();
    if entries == 0 {
        w.close();
        return Res::NotReached;
    }
    let k = match park {
        Park::FirstEntry | Park::BeforeTip => 1,
        Park::MiddleEntry => (entries + 1) / 2,
        Park::LastEntry => entries,
    };
    // reader thread
    let (parked_tx, parked_rx) = channel::<()>();
    let (release_tx, release_rx) = channel::<bool>();
    let (done_tx, done_rx) = channel::<Result<Value, String>>();
    let (s2, p2, pe2) = (storage.clone(), peers.clone(), pending.clone());
    let reader = std::thread::spawn(move || {
        super::super::util::install_panic_hook();
        let mut count = 0u64;
        let mut parked_tx = Some(parked_tx);
        crate::verif_hook::install(Box::new(move |s| {
            if s != site {
                return;
            }
            count += 1;
            if count == k {
                if let Some(tx) = parked_tx.take() {
                    let _ = tx.send(());
                    if let Ok(false) | Err(_) = release_rx.recv() {
                        std::panic::panic_any(AbortExperiment);
                    }
                }
            }
        }));
        let rpc = rpc_of(&s2, &p2, &pe2);
        let r = guarded(|| ask(&rpc, q));
        crate::verif_hook::clear();
        let _ = done_tx.send(match r {
            Ok(v) => Ok(v),
            Err(Unwound::Panic(p)) => Err(format!("{} at {}", p.message, p.location)),
            Err(_) => Err("aborted".into()),
        });
    });
    let mut early: Option<Result<Value, String>> = None;
    let t0 = std::time::Instant::now();
    let parked = loop {
        match parked_rx.recv_timeout(Duration::from_millis(50)) {
            Ok(()) => break true,
            Err(RecvTimeoutError::Timeout) | Err(RecvTimeoutError::Disconnected) => {
                if let Ok(r) = done_rx.try_recv() {
                    early = Some(r);
                    break false;
                }
                if t0.elapsed() > Duration::from_secs(60) {
                    std::mem::forget(reader);
                    std::mem::forget(w);
                    return Res::Inconclusive("reader-watchdog".into());
                }
            }
        }
    };
    if !parked {
        let _ = reader.join();
        w.close();
        let _ = early;
        return Res::NotReached;
    }
    // the writer sequence, on this thread; the query is evaluated at every storage write = the point-in-time states
    let states = std::rc::Rc::new(std::cell::RefCell::new(vec![pre]));
    let st2 = states.clone();
    let rpc_w = rpc_of(&storage, &peers, &pending);
    crate::verif_hook::install(Box::new(move |s| {
        if s.starts_with("read:") {
            return;
        }
        let v = ask(&rpc_w, q);
        let mut g = st2.borrow_mut();
        if g.last() != Some(&v) {
            g.push(v);
        }
    }));
    let ok = drive(&mut w, &mut net, writer, seed);
    crate::verif_hook::clear();
    let post = ask(&rpc, q);
    {
        let mut g = states.borrow_mut();
        if g.last() != Some(&post) {
            g.push(post);
        }
    }
    let _ = release_tx.send(true);
    let answer = match done_rx.recv_timeout(Duration::from_secs(60)) {
        Ok(r) => r,
        Err(_) => {
            std::mem::forget(reader);
            std::mem::forget(w);
            return Res::Inconclusive("reader-watchdog".into());
        }
    };
    let _ = reader.join();
    w.close();
    if !ok {
        return Res::Inconclusive("writer-did-not-converge".into());
    }
    let states = states.borrow().clone();
    Res::Judged { answer, states, entries }
}

pub fn run(cfg: &RunCfg, out: &Out, rounds: u64) {
    let mut plan: Vec<(Query, Writer, Park)> = vec![];
    for q in QUERIES {
        for wr in [Writer::Grow, Writer::Fork, Writer::GrowThenFork] {
            for p in [Park::FirstEntry, Park::MiddleEntry, Park::LastEntry] {
                plan.push((q, wr, p));
            }
            if q == Query::Capacity {
                plan.push((q, wr, Park::BeforeTip));
            }
        }
    }
    for k in 0..rounds {
        let seed = cfg.scenario_seed(k) ^ 0x7ead_e75;
        for (i, (q, wr, park)) in plan.iter().enumerate() {
            if (i as u64 + k) % cfg.shards != cfg.shard {
                continue;
            }
            if out.time_up() {
                return;
            }
            match experiment(seed, *q, *wr, *park) {
                Res::Judged { answer, states, entries } => {
                    if states.len() < 2 {
                        out.count("reader_writer_did_not_change_the_answer", 1);
                        continue;
                    }
                    out.eval(1);
                    out.count("reader_experiments", 1);
                    out.max("reader_point_in_time_states", states.len() as u64);
                    let tag = format!("{}|W={:?}|park={:?}", q.name(), wr, park);
                    match answer {
                        Err(msg) => {
                            out.cell(&format!("reader|{}|PANIC", tag));
                            out.violation("C17.R2", &format!("C17|reader-panicked|{}|W={:?}", q.name(), wr),
                                json!({"seed": seed, "query": q.name(), "writer": format!("{:?}", wr), "park": format!("{:?}", park), "entries": entries, "panic": msg}), k);
                        }
                        Ok(v) => {
                            let pos = states.iter().position(|s| s == &v);
                            let which = match pos {
                                Some(0) => "state-at-call".to_string(),
                                Some(i) if i + 1 == states.len() => "final-state".to_string(),
                                Some(_) => "intermediate-state".to_string(),
                                None => "NO-STATE".to_string(),
                            };
                            out.cell(&format!("reader|{}|{}", tag, which));
                            out.sample(&format!("reader|{}", q.name()), 1, || json!({"query": q.name(), "writer": format!("{:?}", wr), "park": format!("{:?}", park), "entries_visited": entries, "point_in_time_states": states.len(), "answer_equals": which}));
                            if pos.is_none() {
                                out.violation("C17.R2", &format!("C17|reader-saw-no-point-in-time-state|{}|W={:?}", q.name(), wr),
                                    json!({"seed": seed, "query": q.name(), "writer": format!("{:?}", wr), "park": format!("{:?}", park), "entries": entries,
                                        "answer": short(&v), "states": states.iter().map(short).collect::<Vec<_>>()}), k);
                            }
                        }
                    }
                }
                Res::NotReached => out.count("reader_pause_points_not_reached", 1),
                Res::Inconclusive(why) => out.count(&format!("reader_inconclusive_{}", why), 1),
            }
        }
    }
}
