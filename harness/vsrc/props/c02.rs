//! C02 - only data committed by a proven header is ever indexed or served as fetched.

use std::collections::HashSet;

use ckb_types::{
    core::{Capacity, TransactionBuilder},
    packed::{self, Byte32},
    prelude::*,
    H256,
};
use serde_json::json;

use crate::service::{ChainRpc, TransactionRpc};

use super::super::chain::Chain;
use super::super::client::{dump_index, kp};
use super::super::mutate::rand32;
use super::super::net::{Sent, P};
use super::super::out::{hex, Out, RunCfg};
use super::super::rng::Rng;
use super::super::server::{self, LC, SYNC};
use super::super::world::{Hook, Label, Outcome, Resp, World};
use super::common::*;

fn mutate_block(rng: &mut Rng, chain: &Chain, b: &packed::Block) -> Option<(packed::Block, String)> {
    let txs: Vec<packed::Transaction> = b.transactions().into_iter().collect();
    let view = b.clone().into_view();
    match rng.below(6) {
        0 => {
            // an output edited (lock args / capacity): the body no longer matches transactions_root
            let i = rng.pick_idx(txs.len());
            let tx = txs[i].clone().into_view();
            let outs: Vec<packed::CellOutput> = tx.outputs().into_iter().collect();
            if outs.is_empty() {
                return None;
            }
            let j = rng.pick_idx(outs.len());
            let mut o2 = outs.clone();
            let cap: u64 = outs[j].capacity().unpack();
            o2[j] = outs[j].clone().as_builder().capacity(Capacity::shannons(cap + 1).pack()).lock(super::super::chain::lock_script(rng.pick_idx(4))).build();
            let tx2 = tx.as_advanced_builder().set_outputs(o2).build();
            let mut t2 = txs.clone();
            t2[i] = tx2.data();
            Some((b.clone().as_builder().transactions(t2.pack()).build(), "body|output-edited".into()))
        }
        1 => {
            // an additional transaction paying to a registered script
            let extra = TransactionBuilder::default()
                .input(packed::CellInput::new(packed::OutPoint::new(Byte32::new(rand32(rng)), 0), 0))
                .output(packed::CellOutput::new_builder().capacity(Capacity::shannons(123_0000_0000).pack()).lock(super::super::chain::lock_script(rng.pick_idx(4))).build())
                .output_data(Default::default())
                .build();
            let mut t2 = txs.clone();
            t2.push(extra.data());
            Some((b.clone().as_builder().transactions(t2.pack()).build(), "body|transaction-added".into()))
        }
        2 => {
            if txs.len() < 2 {
                return None;
            }
            let mut t2 = txs.clone();
            t2.remove(rng.range(1, txs.len() as u64 - 1) as usize);
            Some((b.clone().as_builder().transactions(t2.pack()).build(), "body|transaction-removed".into()))
        }
        3 => {
            // body of another block under this header
            let n = rng.range(1, chain.tip());
            if n == view.number() {
                return None;
            }
            let other = chain.blocks[n as usize].data();
            Some((b.clone().as_builder().transactions(other.transactions()).build(), "body|of-another-block".into()))
        }
        4 => {
            // witness edited (changes witnesses root only)
            let i = rng.pick_idx(txs.len());
            let tx = txs[i].clone().into_view();
            let tx2 = tx.as_advanced_builder().witness(rng.bytes(5).pack()).build();
            let mut t2 = txs.clone();
            t2[i] = tx2.data();
            Some((b.clone().as_builder().transactions(t2.pack()).build(), "body|witness-edited".into()))
        }
        _ => {
            // extension edited (extra hash no longer matches)
            Some((b.clone().as_builder().build(), String::new())).and_then(|_| {
                let bb = packed::BlockV1::new_builder()
                    .header(b.header())
                    .uncles(b.uncles())
                    .transactions(b.transactions())
                    .proposals(b.proposals())
                    .extension(rng.bytes(40).pack())
                    .build();
                Some((bb.as_v0(), "body|extension-edited".into()))
            })
        }
    }
}

/// the v1 extra fields (uncles hash and extension per returned block: together with the header's extra_hash they bind the extension
/// that is stored next to a fetched header) edited, dropped or added, everything else authentic
fn mutate_v1_fields(rng: &mut Rng, uncles: Vec<Byte32>, exts: Vec<packed::BytesOpt>) -> Option<(Vec<Byte32>, Vec<packed::BytesOpt>, &'static str)> {
    if uncles.is_empty() {
        return None;
    }
    let i = rng.pick_idx(uncles.len());
    let (mut u2, mut e2) = (uncles.clone(), exts.clone());
    let name = match rng.below(5) {
        0 => {
            u2[i] = Byte32::new(rand32(rng));
            "v1-uncles-hash-edited"
        }
        1 => {
            // another extension (also for a block that has none): the header's extra_hash does not commit to it
            let mut b = exts[i].to_opt().map(|x| x.raw_data().to_vec()).unwrap_or_default();
            if b.is_empty() {
                b = rand32(rng).to_vec();
            } else {
                let p = rng.pick_idx(b.len());
                b[p] ^= 0x40;
            }
            e2[i] = Pack::pack(&Some(Pack::<packed::Bytes>::pack(&b[..])));
            "v1-extension-edited"
        }
        2 => {
            if exts[i].to_opt().is_none() {
                return None;
            }
            e2[i] = packed::BytesOpt::default();
            "v1-extension-dropped"
        }
        3 => {
            u2.pop();
            "v1-uncles-hash-count-mismatch"
        }
        _ => {
            e2.push(packed::BytesOpt::default());
            "v1-extension-count-mismatch"
        }
    };
    Some((u2, e2, name))
}

fn mutate_proof_answer(rng: &mut Rng, chain: &Chain, data: &[u8]) -> Option<(Vec<u8>, String)> {
    let m = packed::LightClientMessageReader::from_compatible_slice(data).ok()?;
    if rng.chance(1, 4) {
        match m.to_enum() {
            packed::LightClientMessageUnionReader::SendBlocksProof(r) if r.count_extra_fields() >= 2 => {
                let e = packed::SendBlocksProofV1::from_compatible_slice(r.as_slice()).ok()?;
                let (u2, e2, name) = mutate_v1_fields(rng, e.blocks_uncles_hash().into_iter().collect(), e.blocks_extension().into_iter().collect())?;
                let m2 = e.as_builder().blocks_uncles_hash(u2.pack()).blocks_extension(packed::BytesOptVec::new_builder().set(e2).build()).build();
                return Some((server::lc_raw_union(packed::SendBlocksProof::default().into(), m2.as_slice()).to_vec(), format!("SendBlocksProof|{}", name)));
            }
            packed::LightClientMessageUnionReader::SendTransactionsProof(r) if r.count_extra_fields() >= 2 => {
                let e = packed::SendTransactionsProofV1::from_compatible_slice(r.as_slice()).ok()?;
                let (u2, e2, name) = mutate_v1_fields(rng, e.blocks_uncles_hash().into_iter().collect(), e.blocks_extension().into_iter().collect())?;
                let m2 = e.as_builder().blocks_uncles_hash(u2.pack()).blocks_extension(packed::BytesOptVec::new_builder().set(e2).build()).build();
                return Some((server::lc_raw_union(packed::SendTransactionsProof::default().into(), m2.as_slice()).to_vec(), format!("SendTransactionsProof|{}", name)));
            }
            _ => {}
        }
    }
    match m.to_enum() {
        packed::LightClientMessageUnionReader::SendBlocksProof(r) => {
            let e = packed::SendBlocksProof::from_compatible_slice(r.as_slice()).ok()?;
            let headers: Vec<packed::Header> = e.headers().into_iter().collect();
            let op = rng.below(6);
            let out = match op {
                0 if !headers.is_empty() => {
                    // a header outside the request instead of a requested one (valid header of the chain)
                    let i = rng.pick_idx(headers.len());
                    let n = rng.range(1, chain.tip());
                    let mut h2 = headers.clone();
                    h2[i] = chain.blocks[n as usize].header().data();
                    if h2[i].as_slice() == headers[i].as_slice() {
                        return None;
                    }
                    (e.as_builder().headers(h2.pack()).build(), "SendBlocksProof|header-outside-request")
                }
                1 if !headers.is_empty() => {
                    let i = rng.pick_idx(headers.len());
                    let (h, _) = super::super::mutate::mutate_header(rng, chain, &headers[i], true);
                    let mut h2 = headers.clone();
                    h2[i] = h;
                    (e.as_builder().headers(h2.pack()).build(), "SendBlocksProof|header-forged")
                }
                2 if !headers.is_empty() => {
                    let mut h2 = headers.clone();
                    h2.push(headers[0].clone());
                    (e.as_builder().headers(h2.pack()).build(), "SendBlocksProof|header-duplicated")
                }
                3 => {
                    let pf: Vec<packed::HeaderDigest> = e.proof().into_iter().collect();
                    if pf.is_empty() {
                        return None;
                    }
                    let i = rng.pick_idx(pf.len());
                    let mut p2 = pf.clone();
                    p2[i] = super::super::mutate::mutate_digest(rng, &pf[i]).0;
                    (e.as_builder().proof(packed::HeaderDigestVec::new_builder().set(p2).build()).build(), "SendBlocksProof|proof-item")
                }
                4 if !headers.is_empty() => {
                    // found reported as missing and vice versa
                    let mut miss: Vec<Byte32> = e.missing_block_hashes().into_iter().collect();
                    let mut h2 = headers.clone();
                    let h = h2.pop().unwrap();
                    miss.push(h.calc_header_hash());
                    (e.as_builder().headers(h2.pack()).missing_block_hashes(miss.pack()).build(), "SendBlocksProof|found-reported-missing")
                }
                _ => {
                    // the same answer against a last header the client never proved (a fork block)
                    let f = chain.fork(chain.tip().saturating_sub(1), 2, rng.next_u64() | 1);
                    (e.as_builder().last_header(f.vh(f.tip())).build(), "SendBlocksProof|unproven-last-header")
                }
            };
            // v0 layout keeps the message well-formed; the v1 fields are dropped on purpose for half of them
            Some((server::lc_msg(out.0).to_vec(), out.1.to_string()))
        }
        packed::LightClientMessageUnionReader::SendTransactionsProof(r) => {
            let e = packed::SendTransactionsProof::from_compatible_slice(r.as_slice()).ok()?;
            let fbs: Vec<packed::FilteredBlock> = e.filtered_blocks().into_iter().collect();
            if fbs.is_empty() {
                return None;
            }
            let i = rng.pick_idx(fbs.len());
            let fb = fbs[i].clone();
            let (fb2, name) = match rng.below(5) {
                0 => {
                    let lem: Vec<Byte32> = fb.proof().lemmas().into_iter().collect();
                    let mut l2 = lem.clone();
                    if l2.is_empty() {
                        l2.push(Byte32::new(rand32(rng)));
                    } else {
                        let j = rng.pick_idx(l2.len());
                        l2[j] = Byte32::new(rand32(rng));
                    }
                    (fb.clone().as_builder().proof(fb.proof().as_builder().lemmas(l2.pack()).build()).build(), "SendTransactionsProof|lemma")
                }
                1 => (fb.clone().as_builder().witnesses_root(Byte32::new(rand32(rng))).build(), "SendTransactionsProof|witnesses_root"),
                2 => {
                    // the transaction replaced by a fabricated one paying to a registered script
                    let fake = TransactionBuilder::default()
                        .input(packed::CellInput::new(packed::OutPoint::new(Byte32::new(rand32(rng)), 0), 0))
                        .output(packed::CellOutput::new_builder().capacity(Capacity::shannons(77_0000_0000).pack()).lock(super::super::chain::lock_script(0)).build())
                        .output_data(Default::default())
                        .build();
                    (fb.clone().as_builder().transactions(vec![fake.data()].pack()).build(), "SendTransactionsProof|transaction-replaced")
                }
                3 => {
                    let idx: Vec<packed::Uint32> = fb.proof().indices().into_iter().map(|x| { let v: u32 = x.unpack(); (v + 1).pack() }).collect();
                    (fb.clone().as_builder().proof(fb.proof().as_builder().indices(packed::Uint32Vec::new_builder().set(idx).build()).build()).build(), "SendTransactionsProof|index")
                }
                _ => {
                    let (h, _) = super::super::mutate::mutate_header(rng, chain, &fb.header(), true);
                    (fb.clone().as_builder().header(h).build(), "SendTransactionsProof|header-forged")
                }
            };
            let mut f2 = fbs.clone();
            f2[i] = fb2;
            Some((server::lc_msg(e.as_builder().filtered_blocks(packed::FilteredBlockVec::new_builder().set(f2).build()).build()).to_vec(), name.to_string()))
        }
        _ => None,
    }
}

struct Adv<'a> {
    out: &'a Out,
    k: u64,
    rng: Rng,
    pct: u64,
    desc: serde_json::Value,
    before: Option<Vec<(Vec<u8>, Vec<u8>)>>,
    judged: u64,
    /// blocks whose body was substituted (hash -> operator): the honest body may still arrive later
    substituted: Vec<(Byte32, String)>,
    /// heights whose block touches a registered script (the client's filter check matches there)
    hot: HashSet<u64>,
    /// the forged-filter-hash operator is used at most once per scenario (it stalls the filter sync afterwards)
    forge_left: u32,
    /// transactions the user asked for (fetch_transaction) that were never committed on any chain; the adversary knows their bodies
    uncommitted: std::collections::HashMap<Byte32, ckb_types::core::TransactionView>,
    /// headers the user asked for (fetch_header) that belong to no chain: a real block re-built with another body, re-committed, re-mined
    made_up_blocks: std::collections::HashMap<Byte32, ckb_types::core::BlockView>,
}

/// Answer to a GetBlocksProof that names a made-up block: the honest answer for the genuine hashes plus the made-up header (v1 fields
/// consistent with it). The MMR proof covers the genuine headers only; when the genuine header of the same height is part of the answer
/// there are two headers with one block number.
fn forged_blocks_answer(chain: &Chain, req: &packed::GetBlocksProof, made_up: &std::collections::HashMap<Byte32, ckb_types::core::BlockView>) -> Option<(Vec<u8>, String)> {
    let last = chain.num_of(&req.last_hash())?;
    let fake = req.block_hashes().into_iter().find_map(|h| made_up.get(&h).cloned())?;
    if fake.number() >= last {
        return None;
    }
    let parts = server::blocks_proof_parts(chain, req);
    let mut headers: Vec<packed::Header> = parts.found.iter().map(|n| chain.blocks[*n as usize].header().data()).collect();
    let mut uncles: Vec<Byte32> = parts.found.iter().map(|n| chain.blocks[*n as usize].calc_uncles_hash()).collect();
    let mut exts: Vec<packed::BytesOpt> = parts.found.iter().map(|n| Pack::pack(&chain.blocks[*n as usize].extension())).collect();
    let rel = if parts.found.contains(&fake.number()) { "same-height-as-a-genuine-header-of-the-answer" } else if parts.found.is_empty() { "no-genuine-header-in-the-answer" } else { "other-height-than-the-genuine-headers" };
    headers.push(fake.header().data());
    uncles.push(fake.calc_uncles_hash());
    exts.push(Pack::pack(&fake.extension()));
    let missing: Vec<Byte32> = parts.missing.iter().filter(|m| **m != fake.hash()).cloned().collect();
    let m = packed::SendBlocksProofV1::new_builder()
        .last_header(chain.vh(last))
        .proof(chain.proof(last, &parts.found))
        .headers(headers.pack())
        .missing_block_hashes(missing.pack())
        .blocks_uncles_hash(uncles.pack())
        .blocks_extension(packed::BytesOptVec::new_builder().set(exts).build())
        .build();
    Some((server::lc_raw_union(packed::SendBlocksProof::default().into(), m.as_slice()).to_vec(), format!("SendBlocksProof|made-up-header-the-user-asked-for|{}", rel)))
}

/// Answer to a GetTransactionsProof that names a never-committed transaction: the honest answer for everything else, plus a filtered
/// block the peer made up for that transaction - the real block at some height (the height of the last header itself, the one below,
/// or any lower one) re-built with the transaction in its body, header re-committed to the body and mined again, CBMT proof and v1
/// fields consistent with the made-up block. Nothing binds that header to the chain root of the last header: the MMR proof covers
/// the genuine headers only.
fn forged_txs_answer(rng: &mut Rng, chain: &Chain, req: &packed::GetTransactionsProof, uncommitted: &std::collections::HashMap<Byte32, ckb_types::core::TransactionView>) -> Option<(Vec<u8>, String)> {
    let last = chain.num_of(&req.last_hash())?;
    if last < 2 {
        return None;
    }
    let (h, tx) = req.tx_hashes().into_iter().find_map(|h| uncommitted.get(&h).map(|t| (h.clone(), t.clone())))?;
    let (n, wh) = match rng.below(3) {
        0 => (last, "at-the-number-of-the-last-header"),
        1 => (last - 1, "one-below-the-last-header"),
        _ => (rng.range(1, last - 1), "at-a-lower-height"),
    };
    let real = chain.blocks[n as usize].clone();
    let cellbase = real.transactions()[0].clone();
    let fake = real.as_advanced_builder().set_transactions(vec![cellbase, tx]).build();
    let fake = super::super::chain::mine_block(chain.params.pow, fake, rng.next_u64());
    let parts = server::txs_proof_parts(chain, req);
    let mut fbs: Vec<packed::FilteredBlock> = parts.found.iter().map(|(bn, idxs)| server::filtered_block(&chain.blocks[*bn as usize], idxs)).collect();
    let nums: Vec<u64> = parts.found.iter().map(|(bn, _)| *bn).collect();
    let mut uncles: Vec<Byte32> = nums.iter().map(|n| chain.blocks[*n as usize].calc_uncles_hash()).collect();
    let mut exts: Vec<packed::BytesOpt> = nums.iter().map(|n| Pack::pack(&chain.blocks[*n as usize].extension())).collect();
    fbs.push(server::filtered_block(&fake, &[1]));
    uncles.push(fake.calc_uncles_hash());
    exts.push(Pack::pack(&fake.extension()));
    let missing: Vec<Byte32> = parts.missing.iter().filter(|m| **m != h).cloned().collect();
    let m = packed::SendTransactionsProofV1::new_builder()
        .last_header(chain.vh(last))
        .proof(chain.proof(last, &nums))
        .filtered_blocks(packed::FilteredBlockVec::new_builder().set(fbs).build())
        .missing_tx_hashes(missing.pack())
        .blocks_uncles_hash(uncles.pack())
        .blocks_extension(packed::BytesOptVec::new_builder().set(exts).build())
        .build();
    Some((server::lc_raw_union(packed::SendTransactionsProof::default().into(), m.as_slice()).to_vec(), format!("SendTransactionsProof|made-up-block-for-an-uncommitted-transaction|{}|{}", wh, if nums.contains(&n) { "same-height-as-a-genuine-block-of-the-answer" } else if nums.is_empty() { "no-genuine-block-in-the-answer" } else { "other-height-than-the-genuine-blocks" })))
}

impl<'a> Hook for Adv<'a> {
    fn respond(&mut self, w: &mut World, pi: usize, sent: &Sent, honest: Vec<Resp>) -> Vec<Resp> {
        let chain = &w.chains[w.peers[pi].chain];
        if sent.proto == LC.id() && !self.made_up_blocks.is_empty() && self.rng.chance(2, 3) {
            if let Ok(m) = packed::LightClientMessageReader::from_compatible_slice(&sent.data) {
                if let packed::LightClientMessageUnionReader::GetBlocksProof(r) = m.to_enum() {
                    if let Some((d, op)) = forged_blocks_answer(chain, &r.to_entity(), &self.made_up_blocks) {
                        return vec![Resp { proto: P::Lc, data: d.into(), label: Label::Invalid(op) }];
                    }
                }
            }
        }
        if sent.proto == LC.id() && !self.uncommitted.is_empty() && self.rng.chance(2, 3) {
            if let Ok(m) = packed::LightClientMessageReader::from_compatible_slice(&sent.data) {
                if let packed::LightClientMessageUnionReader::GetTransactionsProof(r) = m.to_enum() {
                    if let Some((d, op)) = forged_txs_answer(&mut self.rng, chain, &r.to_entity(), &self.uncommitted) {
                        return vec![Resp { proto: P::Lc, data: d.into(), label: Label::Invalid(op) }];
                    }
                }
            }
        }
        let mut out = vec![];
        for r in honest {
            if self.rng.below(100) >= self.pct {
                out.push(r);
                continue;
            }
            if sent.proto == SYNC.id() {
                if let Ok(m) = packed::SyncMessageReader::from_compatible_slice(&r.data) {
                    if let packed::SyncMessageUnionReader::SendBlock(sb) = m.to_enum() {
                        let b = sb.block().to_entity();
                        if let Some((b2, op)) = mutate_block(&mut self.rng, chain, &b) {
                            if b2.as_slice() != b.as_slice() {
                                self.substituted.push((b.header().calc_header_hash(), op.clone()));
                                out.push(Resp { proto: P::Sync, data: server::sync_msg(packed::SendBlock::new_builder().block(b2).build()), label: Label::Invalid(format!("SendBlock|{}", op)) });
                                continue;
                            }
                        }
                    }
                }
            } else if P::of(sent.proto) == Some(P::Filter) && self.forge_left > 0 {
                // authentic filters, but at a position that matches a registered script the hash of a block the peer made up
                // (a real block with one output edited and the header re-committed to it), followed at once by that block
                if let Ok(m) = packed::BlockFilterMessageReader::from_compatible_slice(&r.data) {
                    if let packed::BlockFilterMessageUnionReader::BlockFilters(bf) = m.to_enum() {
                        let bf = bf.to_entity();
                        let start: u64 = bf.start_number().unpack();
                        let mut hashes: Vec<Byte32> = bf.block_hashes().into_iter().collect();
                        let pos: Vec<usize> = (0..hashes.len()).filter(|i| self.hot.contains(&(start + *i as u64)) && start + (*i as u64) <= chain.tip()).collect();
                        if !pos.is_empty() {
                            let i = *self.rng.pick(&pos);
                            let real = chain.blocks[(start + i as u64) as usize].clone();
                            let txs: Vec<packed::Transaction> = real.data().transactions().into_iter().collect();
                            let t0 = txs[txs.len() - 1].clone().into_view();
                            let outs: Vec<packed::CellOutput> = t0.outputs().into_iter().collect();
                            if !outs.is_empty() {
                                let mut o2 = outs.clone();
                                let cap: u64 = outs[0].capacity().unpack();
                                o2[0] = outs[0].clone().as_builder().capacity(Capacity::shannons(cap + 7).pack()).build();
                                let mut t2: Vec<ckb_types::core::TransactionView> = txs.iter().map(|t| t.clone().into_view()).collect();
                                let last = t2.len() - 1;
                                t2[last] = t0.as_advanced_builder().set_outputs(o2).build();
                                // the builder re-commits the header to the new body (the nonce is then wrong, nobody checks it here)
                                let fake = real.as_advanced_builder().set_transactions(t2).build();
                                hashes[i] = fake.hash();
                                let bf2 = bf.clone().as_builder().block_hashes(hashes.pack()).build();
                                let msg = packed::BlockFilterMessage::new_builder().set(bf2).build();
                                self.forge_left -= 1;
                                out.push(Resp { proto: P::Filter, data: msg.as_bytes(), label: Label::Invalid("BlockFilters|hash-of-fabricated-block".into()) });
                                out.push(Resp { proto: P::Sync, data: server::sync_msg(packed::SendBlock::new_builder().block(fake.data()).build()), label: Label::Invalid("SendBlock|fabricated-block-before-any-proof".into()) });
                                continue;
                            }
                        }
                    }
                }
            } else if sent.proto == LC.id() {
                if let Some((d, op)) = mutate_proof_answer(&mut self.rng, chain, &r.data) {
                    if d != r.data.to_vec() {
                        out.push(Resp { proto: P::Lc, data: d.into(), label: Label::Invalid(op) });
                        continue;
                    }
                }
            }
            out.push(r);
        }
        out
    }
    fn before_deliver(&mut self, w: &mut World, _pi: usize, m: &Resp) {
        if let Label::Invalid(_) = m.label {
            self.before = Some(dump_index(&w.c().storage));
        }
    }
    fn after_deliver(&mut self, w: &mut World, _pi: usize, m: &Resp, o: &Outcome) {
        self.out.eval(1);
        if let Label::Invalid(op) = &m.label {
            if w.client.is_none() || o.panic.is_some() {
                return;
            }
            self.judged += 1;
            let after = dump_index(&w.c().storage);
            let changed = self.before.as_ref().map(|b| *b != after).unwrap_or(false);
            let outcome = if changed { "CHANGED" } else if !o.banned.is_empty() { "banned" } else { "ignored-or-deferred" };
            self.out.cell(&format!("{}|{}", op, outcome));
            if changed {
                self.out.violation("C02.R1", &format!("C02|index-changed-by-invalid-message|{}", op),
                    json!({"scenario": self.desc, "operator": op, "message": server::describe(m.proto, &m.data), "trace": w.trace_vec().into_iter().rev().take(14).collect::<Vec<_>>()}), self.k);
            }
            self.out.sample(&format!("invalid|{}", op), 1, || json!({"operator": op, "message": server::describe(m.proto, &m.data), "outcome": outcome}));
        }
    }
}

pub fn run(cfg: &RunCfg, out: &Out) {
    for k in 0..cfg.budget {
        if out.time_up() {
            break;
        }
        if let Some(only) = cfg.only_scenario {
            if k != only {
                continue;
            }
        }
        scenario(cfg.scenario_seed(k), k, out);
    }
}

fn scenario(seed: u64, k: u64, out: &Out) {
    let mut rng = Rng::new(seed);
    let (now, base_ts) = time_base();
    let mut params = gen_params(&mut rng, seed, base_ts);
    params.tx_density = *rng.pick(&[60, 100]);
    params.n_locks = 4;
    let len = rng.range(15, 100);
    let ccfg = gen_ccfg(&mut rng);
    let main = Chain::generate(params.clone(), len);
    let mut w = World::new(main, ccfg.clone(), seed, now);
    let net = HonestNet::new(0);
    let npeers = rng.range(1, 2) as usize;
    for _ in 0..npeers {
        w.add_peer(0, false);
    }
    let regs = pick_scripts(&mut rng, &w.chains[0], 3, len / 2);
    set_scripts(&w, &regs, None);
    let mut hot: HashSet<u64> = HashSet::new();
    {
        let idx = super::super::refidx::build(&w.chains[0], w.chains[0].tip());
        for (s, st, start) in regs.iter() {
            if let Some(h) = idx.history.get(&(*st, super::super::refidx::script_key(s))) {
                hot.extend(h.iter().filter(|t| t.block > *start).map(|t| t.block));
            }
        }
    }
    let desc = json!({"seed": seed, "scenario": k, "len": len, "last_n": ccfg.last_n, "peers": npeers, "pow": format!("{:?}", params.pow)});
    let mut adv = Adv { out, k, rng: rng.fork(5), pct: *rng.pick(&[10u64, 25, 50]), desc: desc.clone(), before: None, judged: 0, substituted: vec![], hot: hot.clone(), forge_left: if rng.chance(1, 3) { 1 } else { 0 }, uncommitted: Default::default(), made_up_blocks: Default::default() };
    w.connect_all();
    for step in 0..rng.range(20, 70) {
        if w.dead {
            break;
        }
        w.round(&mut adv);
        if step % 9 == 4 {
            net.grow(&mut w, 1);
        }
        if step % 5 == 2 {
            w.connect_all();
        }
        if rng.chance(1, 6) {
            // fetch requests so that blocks-proof / transactions-proof answers are outstanding
            let c = &w.chains[0];
            let n = rng.range(1, c.tip());
            let b = &c.blocks[n as usize];
            if rng.chance(1, 2) {
                let h: H256 = b.hash().unpack();
                let _ = w.c().rpc_chain().fetch_header(h);
                if rng.chance(1, 3) && b.transactions().len() > 1 {
                    // ... and for a block nobody mined on any chain: the same block with only its cellbase, header re-committed, re-mined
                    let fake = b.as_advanced_builder().set_transactions(vec![b.transactions()[0].clone()]).build();
                    let fake = super::super::chain::mine_block(c.params.pow, fake, rng.next_u64());
                    let fh: H256 = fake.hash().unpack();
                    adv.made_up_blocks.insert(fake.hash(), fake);
                    let _ = w.c().rpc_chain().fetch_header(fh);
                }
            } else if rng.chance(1, 3) {
                // the user asks for a transaction that was never committed (its body is known to everybody, e.g. it was broadcast once)
                let t = TransactionBuilder::default()
                    .input(packed::CellInput::new(packed::OutPoint::new(Byte32::new(rand32(&mut rng)), 0), 0))
                    .output(packed::CellOutput::new_builder().capacity(Capacity::shannons(91_0000_0000).pack()).lock(super::super::chain::lock_script(0)).build())
                    .output_data(Default::default())
                    .build();
                let h: H256 = t.hash().unpack();
                adv.uncommitted.insert(t.hash(), t);
                let _ = w.c().rpc_tx().fetch_transaction(h);
            } else {
                let h: H256 = b.transactions()[rng.pick_idx(b.transactions().len())].hash().unpack();
                let _ = w.c().rpc_tx().fetch_transaction(h);
            }
        }
        if rng.chance(1, 10) && !w.dead {
            // answers nobody asked for
            let connected: Vec<usize> = (0..w.peers.len()).filter(|i| w.peers[*i].connected).collect();
            if let Some(pi) = connected.first().cloned() {
                let c = w.chains[0].clone();
                let n = rng.range(1, c.tip());
                let data = server::sync_msg(packed::SendBlock::new_builder().block(c.blocks[n as usize].data()).build());
                let unrequested = !w.c().peers.matched_blocks().read().map(|m| m.contains_key(&c.blocks[n as usize].hash().unpack())).unwrap_or(true);
                if unrequested {
                    w.deliver(pi, Resp { proto: P::Sync, data, label: Label::Invalid("SendBlock|unrequested-block".into()) }, &mut adv);
                }
            }
        }
    }
    // end of scenario: every stored transaction / header / cell must be the chain's
    if !w.dead && w.client.is_some() {
        let chain = &w.chains[0];
        let known_tx: HashSet<Vec<u8>> = chain.txs.keys().map(|h| h.as_slice().to_vec()).collect();
        let known_hdr: HashSet<Vec<u8>> = chain.blocks.iter().map(|b| b.hash().as_slice().to_vec()).collect();
        let mut bad_tx = 0;
        let mut bad_hdr = 0;
        let mut n = 0u64;
        for (key, val) in dump_index(&w.c().storage) {
            match key[0] {
                kp::TX_HASH => {
                    n += 1;
                    let stored = packed::Transaction::from_slice(&val[12..]).map(|t| t.calc_tx_hash().as_slice().to_vec()).unwrap_or_default();
                    if !known_tx.contains(&key[1..].to_vec()) || stored != key[1..].to_vec() {
                        bad_tx += 1;
                    }
                }
                kp::BLOCK_HASH => {
                    n += 1;
                    if !known_hdr.contains(&key[1..].to_vec()) {
                        bad_hdr += 1;
                    }
                }
                _ => {}
            }
        }
        out.eval(n + 1);
        if bad_tx > 0 || bad_hdr > 0 {
            let ops: Vec<String> = adv.substituted.iter().map(|(_, o)| o.clone()).collect();
            let cause = if ops.iter().any(|o| o.starts_with("body|")) { "after-body-substitution" } else { "other" };
            out.violation("C02.R2", &format!("C02|stored-data-not-on-chain|{}", cause), json!({"scenario": desc, "transactions_not_on_chain": bad_tx, "headers_not_on_chain": bad_hdr, "substitutions": ops,
                "trace": w.trace_vec().into_iter().rev().take(10).collect::<Vec<_>>()}), k);
        }
        out.cell(&format!("final-store-check|{}", if bad_tx + bad_hdr > 0 { "BAD" } else { "ok" }));
    }
    out.count("scenarios", 1);
    out.count("invalid_messages_judged", adv.judged);
    let _ = hex(&[]);
    w.close();
}
