//! C14 - difficulty checks accept every legal difficulty history and bound illegal ones.
//! Direct calls of verify_tau / verify_total_difficulty (re-exported under feature `verif`).

use ckb_constant::consensus::TAU;
use ckb_types::{
    core::EpochNumberWithFraction,
    utilities::{compact_to_difficulty, difficulty_to_compact},
    U256,
};
use serde_json::json;

use crate::protocols::light_client::verif_access::{verify_tau, verify_total_difficulty};

use super::super::out::{Out, RunCfg};
use super::super::rng::Rng;
use super::super::util::{guarded, Unwound};

#[derive(Clone, Debug)]
struct Ep {
    len: u64,
    compact: u32,
    d: U256,
}

impl Ep {
    fn epoch_diff(&self) -> U256 {
        &self.d * self.len
    }
}

fn mk(len: u64, want: &U256) -> Option<Ep> {
    if want.is_zero() || len == 0 || len >= 65536 {
        return None;
    }
    let compact = difficulty_to_compact(want.clone());
    let d = compact_to_difficulty(compact);
    if d.is_zero() {
        return None;
    }
    // the compact form must be canonical (round trip stable), as a header's compact target is
    if difficulty_to_compact(d.clone()) != compact {
        return None;
    }
    Some(Ep { len, compact, d })
}

fn legal_step(prev: &Ep, next: &Ep) -> bool {
    let a = prev.epoch_diff();
    let b = next.epoch_diff();
    // tau*D' >= D and D' <= tau*D, exact integers (numbers are far below 2^255 here)
    &b * TAU >= a && b <= &a * TAU
}

fn ep_at(number: u64, idx: u64, e: &Ep) -> EpochNumberWithFraction {
    EpochNumberWithFraction::new_unchecked(number, idx, e.len)
}

/// exact accumulated difficulty from the start block (exclusive) to the end block (inclusive)
fn exact_total(h: &[Ep], i_s: u64, i_e: u64) -> U256 {
    let n = h.len() - 1;
    if n == 0 {
        return &h[0].d * (i_e - i_s);
    }
    let mut t = &h[0].d * (h[0].len - i_s - 1);
    for e in &h[1..n] {
        t = t + e.epoch_diff();
    }
    t + &h[n].d * (i_e + 1)
}

struct Ctx<'a> {
    out: &'a Out,
    k: u64,
}

fn trend_class(h: &[Ep]) -> &'static str {
    let a = h[0].epoch_diff();
    let b = h[h.len() - 1].epoch_diff();
    if a == b {
        "flat"
    } else if a < b {
        "up"
    } else {
        "down"
    }
}

fn n_class(n: usize) -> &'static str {
    match n {
        0 => "n0",
        1 => "n1",
        2 => "n2",
        3..=5 => "n3-5",
        6..=50 => "n6-50",
        _ => "n50+",
    }
}

fn hist_json(h: &[Ep], i_s: u64, i_e: u64) -> serde_json::Value {
    let eps: Vec<_> = h.iter().take(12).map(|e| json!({"len": e.len, "compact": format!("{:#x}", e.compact), "d": format!("{:#x}", e.d)})).collect();
    json!({"epochs": h.len(), "first": eps, "start_index": i_s, "end_index": i_e})
}

/// calls both functions; Ok(accepted) or the panic
fn call_total(h0: &Ep, n0: u64, i_s: u64, std: &U256, hn: &Ep, nn: u64, i_e: u64, etd: &U256) -> Result<bool, Unwound> {
    call_total_msg(h0, n0, i_s, std, hn, nn, i_e, etd).map(|r| r.is_ok())
}

fn call_total_msg(h0: &Ep, n0: u64, i_s: u64, std: &U256, hn: &Ep, nn: u64, i_e: u64, etd: &U256) -> Result<Result<(), String>, Unwound> {
    let (se, sc, ee, ec) = (ep_at(n0, i_s, h0), h0.compact, ep_at(nn, i_e, hn), hn.compact);
    guarded(|| verify_total_difficulty(se, sc, std, ee, ec, etd, TAU))
}

/// the exponent k as the client defines it: S*tau^k < E <= S*tau^(k+1) (resp. mirrored)
fn tau_exponent(s: &U256, e: &U256, n: u64) -> Option<u64> {
    if s == e {
        return Some(0);
    }
    let mut tmp = s.clone();
    for k in 0..n {
        if s < e {
            tmp = tmp.saturating_mul(&U256::from(TAU));
            if &tmp >= e {
                return Some(k);
            }
        } else {
            tmp = tmp / TAU;
            if &tmp <= e {
                return Some(k);
            }
        }
    }
    None
}

fn call_tau(h0: &Ep, n0: u64, i_s: u64, hn: &Ep, nn: u64, i_e: u64) -> Result<Option<bool>, Unwound> {
    let (se, sc, ee, ec) = (ep_at(n0, i_s, h0), h0.compact, ep_at(nn, i_e, hn), hn.compact);
    guarded(|| verify_tau(se, sc, ee, ec, TAU).ok())
}

fn report_panic(cx: &Ctx, func: &str, u: Unwound, input: serde_json::Value) {
    if let Unwound::Panic(p) = u {
        cx.out.violation("C14.R4", &p.signature("C14", func), json!({"input": input, "panic": p.message, "at": p.location}), cx.k);
    }
}

fn judge_history(cx: &Ctx, h: &[Ep], base_no: u64, i_s: u64, i_e: u64, rng: &mut Rng, shape_checks: bool) {
    let out = cx.out;
    let n = h.len() - 1;
    let total = exact_total(h, i_s, i_e);
    let start_td = match rng.below(4) {
        0 => U256::zero(),
        1 => U256::from(rng.next_u64()),
        2 => U256::one() << 128usize,
        _ => U256::from(1u64),
    };
    let end_td = &start_td + &total;
    let (h0, hn) = (&h[0], &h[n]);
    let cellbase = format!("{}|{}", trend_class(h), n_class(n));
    // Part 1: completeness (strict)
    out.eval(2);
    match call_tau(h0, base_no, i_s, hn, base_no + n as u64, i_e) {
        Ok(Some(true)) => out.cell(&format!("tau-accept|{}", cellbase)),
        Ok(other) => {
            out.violation("C14.R1", &format!("C14|legal-history-rejected|verify_tau|{}|{}", trend_class(h), n_class(n)),
                json!({"history": hist_json(h, i_s, i_e), "result": format!("{:?}", other)}), cx.k);
        }
        Err(u) => report_panic(cx, "verify_tau", u, hist_json(h, i_s, i_e)),
    }
    match call_total_msg(h0, base_no, i_s, &start_td, hn, base_no + n as u64, i_e, &end_td) {
        Ok(Ok(())) => out.cell(&format!("total-accept|{}", cellbase)),
        Ok(Err(msg)) => {
            let side = if msg.contains("upper limit") {
                "upper"
            } else if msg.contains("lower limit") {
                "lower"
            } else {
                "other"
            };
            let k = tau_exponent(&h0.epoch_diff(), &hn.epoch_diff(), n as u64);
            let parity = match k {
                Some(k) if (n as u64 - k) % 2 == 0 => "nk-even",
                Some(_) => "nk-odd",
                None => "k-none",
            };
            out.violation("C14.R1", &format!("C14|legal-history-rejected|verify_total_difficulty|{}|{}|{}", trend_class(h), side, parity),
                json!({"history": hist_json(h, i_s, i_e), "total": format!("{:#x}", total), "n": n, "k": k, "error": msg.chars().take(300).collect::<String>()}), cx.k);
        }
        Err(u) => report_panic(cx, "verify_total_difficulty", u, hist_json(h, i_s, i_e)),
    }
    out.sample(&format!("legal|{}", n_class(n)), 1, || json!({"history": hist_json(h, i_s, i_e), "total": format!("{:#x}", total), "accepted": true}));
    if !shape_checks {
        return;
    }
    // Part 2: soundness on the named classes
    let nn = base_no + n as u64;
    // (a) decreasing total
    if !start_td.is_zero() {
        out.eval(1);
        let lower = &start_td - 1u64;
        match call_total(h0, base_no, i_s, &start_td, hn, nn, i_e, &lower) {
            Ok(false) => out.cell(&format!("reject-decrease|{}", n_class(n))),
            Ok(true) => out.violation("C14.R2", "C14|accepted|decreasing-total", json!({"history": hist_json(h, i_s, i_e)}), cx.k),
            Err(u) => report_panic(cx, "verify_total_difficulty", u, hist_json(h, i_s, i_e)),
        }
    }
    // (b) same epoch / exactly one switch: any total that differs by >= 1
    if n <= 1 {
        for delta in [1u64, 2, 1000] {
            for up in [true, false] {
                let t = if up { &total + delta } else if total >= U256::from(delta) { &total - delta } else { continue };
                out.eval(1);
                let etd = &start_td + &t;
                match call_total(h0, base_no, i_s, &start_td, hn, nn, i_e, &etd) {
                    Ok(false) => out.cell(&format!("reject-mismatch|{}", n_class(n))),
                    Ok(true) => out.violation("C14.R2", &format!("C14|accepted|mismatch-{}", n_class(n)), json!({"history": hist_json(h, i_s, i_e), "total": format!("{:#x}", t), "exact": format!("{:#x}", total)}), cx.k),
                    Err(u) => report_panic(cx, "verify_total_difficulty", u, hist_json(h, i_s, i_e)),
                }
            }
        }
    }
    if n >= 1 {
        // (c) end epoch difficulty outside [floor(D0/tau^n) - 1, D0*tau^n + 1]
        let d0 = h0.epoch_diff();
        let mut hi = d0.clone();
        let mut lo = d0.clone();
        for _ in 0..n.min(250) {
            hi = hi.saturating_mul(&U256::from(TAU));
            lo = lo / TAU;
        }
        let len = hn.len;
        // too fast up: block difficulty such that epoch difficulty > hi + 1
        if hi < (U256::one() << 240usize) {
            let want = (&hi + 2u64) / len + 2u64;
            if let Some(e) = mk(len, &want) {
                if e.epoch_diff() > &hi + 1u64 {
                    out.eval(2);
                    match call_tau(h0, base_no, i_s, &e, nn, i_e.min(len - 1)) {
                        Ok(Some(true)) => out.violation("C14.R2", "C14|accepted|verify_tau|too-fast-up", json!({"history": hist_json(h, i_s, i_e), "end_epoch_diff": format!("{:#x}", e.epoch_diff()), "limit": format!("{:#x}", hi)}), cx.k),
                        Ok(_) => out.cell(&format!("reject-fast-up-tau|{}", n_class(n))),
                        Err(u) => report_panic(cx, "verify_tau", u, hist_json(h, i_s, i_e)),
                    }
                    let big = &start_td + &(&total + &e.epoch_diff());
                    match call_total(h0, base_no, i_s, &start_td, &e, nn, i_e.min(len - 1), &big) {
                        Ok(true) => out.violation("C14.R2", "C14|accepted|verify_total_difficulty|too-fast-up", json!({"history": hist_json(h, i_s, i_e)}), cx.k),
                        Ok(false) => out.cell(&format!("reject-fast-up-total|{}", n_class(n))),
                        Err(u) => report_panic(cx, "verify_total_difficulty", u, hist_json(h, i_s, i_e)),
                    }
                }
            }
        }
        if lo > U256::from(4u64) {
            let want = (&lo - 2u64) / len;
            if let Some(e) = mk(len, &want) {
                if &e.epoch_diff() + 1u64 < lo {
                    out.eval(2);
                    match call_tau(h0, base_no, i_s, &e, nn, i_e.min(len - 1)) {
                        Ok(Some(true)) => out.violation("C14.R2", "C14|accepted|verify_tau|too-fast-down", json!({"history": hist_json(h, i_s, i_e), "end_epoch_diff": format!("{:#x}", e.epoch_diff()), "limit": format!("{:#x}", lo)}), cx.k),
                        Ok(_) => out.cell(&format!("reject-fast-down-tau|{}", n_class(n))),
                        Err(u) => report_panic(cx, "verify_tau", u, hist_json(h, i_s, i_e)),
                    }
                    match call_total(h0, base_no, i_s, &start_td, &e, nn, i_e.min(len - 1), &end_td) {
                        Ok(true) => out.violation("C14.R2", "C14|accepted|verify_total_difficulty|too-fast-down", json!({"history": hist_json(h, i_s, i_e)}), cx.k),
                        Ok(false) => out.cell(&format!("reject-fast-down-total|{}", n_class(n))),
                        Err(u) => report_panic(cx, "verify_total_difficulty", u, hist_json(h, i_s, i_e)),
                    }
                }
            }
        }
    }
    if n >= 2 && n <= 200 {
        // (d) totals outside the unconditional tau envelope
        let d0 = h0.epoch_diff();
        let head = &h0.d * (h0.len - i_s - 1);
        let tail = &hn.d * (i_e + 1);
        let mut lo_sum = U256::zero();
        let mut hi_sum = U256::zero();
        let mut lo = d0.clone();
        let mut hi = d0.clone();
        let mut overflow = false;
        for _ in 1..n {
            lo = lo / TAU;
            hi = hi.saturating_mul(&U256::from(TAU));
            lo_sum = lo_sum + &lo;
            match hi_sum.checked_add(&hi) {
                Some(v) => hi_sum = v,
                None => overflow = true,
            }
        }
        let eps = U256::from((2 * n * (n + 1)) as u64);
        let unaligned = &head + &tail;
        if !overflow && hi_sum < (U256::one() << 250usize) {
            let t = &unaligned + &hi_sum + &eps + 1u64;
            out.eval(1);
            match call_total(h0, base_no, i_s, &start_td, hn, nn, i_e, &(&start_td + &t)) {
                Ok(true) => out.violation("C14.R2", &format!("C14|accepted|above-envelope|{}", trend_class(h)), json!({"history": hist_json(h, i_s, i_e), "total": format!("{:#x}", t), "upper": format!("{:#x}", &unaligned + &hi_sum)}), cx.k),
                Ok(false) => out.cell(&format!("reject-above|{}|{}", trend_class(h), n_class(n))),
                Err(u) => report_panic(cx, "verify_total_difficulty", u, hist_json(h, i_s, i_e)),
            }
        }
        if lo_sum > &eps + 1u64 {
            let t = &unaligned + &(&lo_sum - &eps - 1u64);
            out.eval(1);
            match call_total(h0, base_no, i_s, &start_td, hn, nn, i_e, &(&start_td + &t)) {
                Ok(true) => out.violation("C14.R2", &format!("C14|accepted|below-envelope|{}", trend_class(h)), json!({"history": hist_json(h, i_s, i_e), "total": format!("{:#x}", t), "lower": format!("{:#x}", &unaligned + &lo_sum)}), cx.k),
                Ok(false) => out.cell(&format!("reject-below|{}|{}", trend_class(h), n_class(n))),
                Err(u) => report_panic(cx, "verify_total_difficulty", u, hist_json(h, i_s, i_e)),
            }
        }
        // Part 3: the accepted totals form an interval; acceptance is shift invariant
        let span = if hi_sum > lo_sum { &hi_sum - &lo_sum } else { U256::one() };
        let mut ts: Vec<U256> = (0..3)
            .map(|_| {
                let frac = rng.below(1000);
                &unaligned + &lo_sum + &(&span / 1000u64 * frac)
            })
            .collect();
        ts.push(total.clone());
        ts.sort();
        let mut acc = vec![];
        for t in ts.iter() {
            out.eval(1);
            match call_total(h0, base_no, i_s, &start_td, hn, nn, i_e, &(&start_td + t)) {
                Ok(a) => acc.push(a),
                Err(u) => {
                    report_panic(cx, "verify_total_difficulty", u, hist_json(h, i_s, i_e));
                    return;
                }
            }
        }
        for a in 0..acc.len() {
            for c in a + 2..acc.len() {
                if acc[a] && acc[c] && (a + 1..c).any(|b| !acc[b]) {
                    out.violation("C14.R3", "C14|accepted-set-not-interval", json!({"history": hist_json(h, i_s, i_e), "totals": ts.iter().map(|t| format!("{:#x}", t)).collect::<Vec<_>>(), "accepted": acc}), cx.k);
                }
            }
        }
        out.cell(&format!("interval|{}|{}", trend_class(h), n_class(n)));
        let shift = U256::one() << 200usize;
        for (t, a) in ts.iter().zip(acc.iter()) {
            out.eval(1);
            let s2 = &start_td + &shift;
            match call_total(h0, base_no, i_s, &s2, hn, nn, i_e, &(&s2 + t)) {
                Ok(b) if b != *a => out.violation("C14.R3", "C14|not-shift-invariant", json!({"history": hist_json(h, i_s, i_e), "total": format!("{:#x}", t)}), cx.k),
                Ok(_) => {}
                Err(u) => report_panic(cx, "verify_total_difficulty", u, hist_json(h, i_s, i_e)),
            }
        }
    }
}

const GRID_LEN: [u64; 4] = [1, 2, 3, 7];
const GRID_D: [u64; 12] = [1, 2, 3, 4, 6, 8, 12, 16, 24, 48, 100, 200];

/// depth-first enumeration of every legal history over the small grid with up to `max_n` switches
fn enumerate_grid(cx: &Ctx, max_n: usize, shard: u64, shards: u64, rng: &mut Rng, counter: &mut u64, cur: &mut Vec<Ep>) {
    let n = cur.len() - 1;
    // judge this prefix for a few start/end positions (all for short epochs)
    *counter += 1;
    if *counter % shards == shard {
        let l0 = cur[0].len;
        let ln = cur[n].len;
        let starts: Vec<u64> = if l0 <= 3 { (0..l0).collect() } else { vec![0, 1, l0 - 1] };
        let ends: Vec<u64> = if ln <= 3 { (0..ln).collect() } else { vec![0, 1, ln - 1] };
        for i_s in starts.iter() {
            for i_e in ends.iter() {
                if n == 0 && i_e < i_s {
                    continue;
                }
                judge_history(cx, cur, 5, *i_s, *i_e, rng, n >= 1 || i_e > i_s);
            }
        }
    }
    if n == max_n || cx.out.time_up() {
        return;
    }
    for len in GRID_LEN {
        for d in GRID_D {
            if let Some(e) = mk(len, &U256::from(d)) {
                if e.d != U256::from(d) {
                    continue;
                }
                if legal_step(&cur[n], &e) {
                    cur.push(e);
                    enumerate_grid(cx, max_n, shard, shards, rng, counter, cur);
                    cur.pop();
                }
            }
        }
    }
}

fn random_walk(rng: &mut Rng, n: usize, bits: u32) -> Vec<Ep> {
    let mut h: Vec<Ep> = vec![];
    let base = (U256::one() << (rng.below(bits as u64) as usize)) + U256::from(rng.next_u64() >> 20);
    let len0_max = if rng.chance(1, 3) { 1800 } else { 12 };
    let len0 = rng.range(1, len0_max);
    let mut first = mk(len0, &base);
    while first.is_none() {
        first = mk(len0, &(U256::from(rng.range(1, 1 << 20))));
    }
    h.push(first.unwrap());
    let mode = rng.below(4);
    while h.len() <= n {
        let prev = h.last().unwrap().clone();
        let pd = prev.epoch_diff();
        let mut pushed = false;
        for _try in 0..6 {
            let (num, den): (u64, u64) = match mode {
                0 => *rng.pick(&[(1, 2), (2, 3), (1, 1), (3, 2), (2, 1), (5, 4), (4, 5)]),
                1 => (2, 1),
                2 => (1, 2),
                _ => {
                    if h.len() * 2 < n {
                        (2, 1)
                    } else {
                        (1, 2)
                    }
                }
            };
            let len_max = if prev.len > 100 { 1800 } else { 12 };
            let len = if rng.chance(1, 2) { prev.len } else { rng.range(1, len_max) };
            let target = &pd * num / den;
            let mut want = &target / len;
            if want.is_zero() {
                want = U256::one();
            }
            if want >= (U256::one() << 230usize) {
                continue;
            }
            if let Some(e) = mk(len, &want) {
                if legal_step(&prev, &e) {
                    h.push(e);
                    pushed = true;
                    break;
                }
            }
        }
        if !pushed {
            // same epoch parameters are always legal
            h.push(prev);
        }
    }
    h
}

fn arbitrary(cx: &Ctx, rng: &mut Rng) {
    let out = cx.out;
    let pick_u64 = |rng: &mut Rng| -> u64 {
        match rng.below(8) {
            0 => 0,
            1 => 1,
            2 => u64::MAX,
            3 => (1 << 24) - 1,
            4 => 65535,
            5 => rng.below(10),
            _ => rng.next_u64(),
        }
    };
    let pick_epoch = |rng: &mut Rng| -> EpochNumberWithFraction {
        if rng.chance(1, 3) {
            EpochNumberWithFraction::from_full_value(pick_u64(rng))
        } else {
            EpochNumberWithFraction::new_unchecked(rng.below(40), rng.below(12), rng.below(12))
        }
    };
    let pick_compact = |rng: &mut Rng| -> u32 {
        match rng.below(8) {
            0 => 0,
            1 => u32::MAX,
            2 => 0x2100_ffff,
            3 => 0x0100_0001,
            4 => 0x2000_0001,
            5 => difficulty_to_compact(U256::from(rng.range(1, 1000))),
            6 => difficulty_to_compact(U256::one() << (rng.below(255) as usize)),
            _ => rng.next_u64() as u32,
        }
    };
    let pick_td = |rng: &mut Rng| -> U256 {
        match rng.below(6) {
            0 => U256::zero(),
            1 => U256::max_value(),
            2 => U256::one() << (rng.below(256) as usize),
            3 => U256::from(rng.next_u64()),
            _ => U256::from(rng.below(100_000)),
        }
    };
    let (se, ee) = (pick_epoch(rng), pick_epoch(rng));
    let (sc, ec) = (pick_compact(rng), pick_compact(rng));
    let (std, etd) = (pick_td(rng), pick_td(rng));
    let input = json!({"start_epoch": format!("{:#}", se), "start_epoch_raw": se.full_value(), "end_epoch": format!("{:#}", ee), "end_epoch_raw": ee.full_value(),
        "start_compact": format!("{:#x}", sc), "end_compact": format!("{:#x}", ec), "start_td": format!("{:#x}", std), "end_td": format!("{:#x}", etd)});
    out.eval(2);
    let cls = format!(
        "arb|{}|{}",
        if se.number() == ee.number() { "same" } else if se.number() < ee.number() { "fwd" } else { "back" },
        if se.is_well_formed() && ee.is_well_formed() { "wf" } else { "malformed-epoch" }
    );
    match guarded(|| verify_tau(se, sc, ee, ec, TAU).is_ok()) {
        Ok(_) => out.cell(&format!("tau|{}", cls)),
        Err(u) => report_panic(cx, "verify_tau", u, input.clone()),
    }
    match guarded(|| verify_total_difficulty(se, sc, &std, ee, ec, &etd, TAU).is_ok()) {
        Ok(_) => out.cell(&format!("total|{}", cls)),
        Err(u) => report_panic(cx, "verify_total_difficulty", u, input),
    }
}

pub fn run(cfg: &RunCfg, out: &Out) {
    let mut rng = Rng::new(cfg.shard_seed());
    let cx = Ctx { out, k: 0 };
    // 1. exhaustive small grid (sharded): every legal history with up to max_n switches
    let max_n = if cfg.tier == "thorough" { 5 } else { 4 };
    let mut counter = 0u64;
    for len in GRID_LEN {
        for d in GRID_D {
            if let Some(e) = mk(len, &U256::from(d)) {
                if e.d == U256::from(d) {
                    let mut cur = vec![e];
                    enumerate_grid(&cx, max_n, cfg.shard, cfg.shards, &mut rng, &mut counter, &mut cur);
                }
            }
        }
    }
    out.count("grid_histories_enumerated", counter);
    out.note(&format!("grid: lens {:?} x difficulties {:?}, up to {} epoch switches, {}", GRID_LEN, GRID_D, max_n, if out.time_up() { "TRUNCATED by time cap" } else { "complete" }));
    // 2. random legal walks
    for k in 0..cfg.budget {
        if out.time_up() {
            break;
        }
        let cx = Ctx { out, k };
        let mut r = Rng::new(cfg.scenario_seed(k));
        let n = match r.below(6) {
            0 => r.range(0, 3),
            1 | 2 => r.range(2, 12),
            3 => r.range(10, 120),
            4 => r.range(100, 600),
            _ => r.range(500, 3000),
        } as usize;
        let bits = *r.pick(&[8u32, 20, 64, 128, 200]);
        let h = random_walk(&mut r, n, bits);
        let i_s = r.below(h[0].len);
        let i_e = if n == 0 { r.range(i_s, h[0].len - 1) } else { r.below(h[n].len) };
        judge_history(&cx, &h, r.below(1000), i_s, i_e, &mut r, true);
        // sub-ranges of the same walk
        for _ in 0..4 {
            if h.len() < 3 {
                break;
            }
            let a = r.pick_idx(h.len() - 1);
            let b = r.range(a as u64, (h.len() - 1) as u64) as usize;
            let sub = &h[a..=b];
            let i_s = r.below(sub[0].len);
            let i_e = if sub.len() == 1 { r.range(i_s, sub[0].len - 1) } else { r.below(sub[sub.len() - 1].len) };
            judge_history(&cx, sub, a as u64, i_s, i_e, &mut r, true);
        }
        // 3. arbitrary numbers: no abort
        for _ in 0..200 {
            arbitrary(&cx, &mut r);
        }
    }
}
