//! C17 - concurrent RPC calls and protocol handlers behave like some serial order.
//! Pause-point experiments on real threads: op A is parked before its k-th storage write (hook), op B is
//! started on another thread, A is released; the final state must equal one of the two serial outcomes.

use std::collections::BTreeMap;
use std::sync::mpsc::{channel, RecvTimeoutError};
use std::sync::Arc;
use std::time::Duration;

use ckb_network::{bytes::Bytes as P2pBytes, CKBProtocolHandler, PeerIndex};
use ckb_types::{packed, prelude::*};
use serde_json::{json, Value};

use crate::protocols::{FilterProtocol, Peers, SyncProtocol};
use crate::service::{BlockFilterRpc, BlockFilterRpcImpl, SetScriptsCommand};
use crate::storage::{Storage, StorageWithChainData};

use super::super::chain::{lock_script, Chain};
use super::super::client::{dump_index, ClientCfg};
use super::super::net::{NetLog, RecNet, P};
use super::super::out::{hex, Out, RunCfg};
use super::super::refidx::{Registered, ST};
use super::super::rng::Rng;
use super::super::server::{self, ServerOpts};
use super::super::util::{guarded, AbortExperiment, Unwound};
use super::super::world::{NoHook, World};
use super::common::*;

#[derive(Clone, Debug)]
enum Op {
    SetScripts(&'static str, Registered),
    /// deliver this BlockFilters message (the honest answer to the client's next request)
    Filters(P2pBytes),
    /// deliver this SendBlock (the last block of the pending batch)
    Block(P2pBytes),
    /// deliver this SendLastStateProof: the network switched to a branch that forks off a remembered last-N header
    /// (reorg section present: commit_prove_state removes matched blocks above the fork point and rolls the index back)
    ForkProof(P2pBytes),
}

impl Op {
    fn name(&self) -> String {
        match self {
            Op::SetScripts(c, r) => format!("set_scripts({},{})", c, r.len()),
            Op::Filters(_) => "BlockFilters".into(),
            Op::Block(_) => "SendBlock(last of batch)".into(),
            Op::ForkProof(_) => "SendLastStateProof(fork rollback)".into(),
        }
    }
}

struct Handles {
    storage: Storage,
    peers: Arc<Peers>,
    peer: PeerIndex,
    log: NetLog,
    consensus: ckb_chain_spec::consensus::Consensus,
    ccfg: ClientCfg,
}

fn exec(h: &Handles, op: &Op) {
    let rt = tokio::runtime::Builder::new_current_thread().build().unwrap();
    match op {
        Op::SetScripts(cmd, regs) => {
            let rpc = BlockFilterRpcImpl { swc: StorageWithChainData::new(h.storage.clone(), h.peers.clone(), Default::default()) };
            let v: Vec<_> = regs.iter().map(|(s, st, n)| to_rpc_status(s, *st, *n)).collect();
            let c = match *cmd {
                "all" => SetScriptsCommand::All,
                "partial" => SetScriptsCommand::Partial,
                _ => SetScriptsCommand::Delete,
            };
            rpc.set_scripts(v, Some(c)).expect("set_scripts");
        }
        Op::Filters(data) => {
            let mut f = FilterProtocol::new(h.storage.clone(), h.peers.clone());
            rt.block_on(f.received(RecNet::new(P::Filter.sp(), h.log.clone()), h.peer, data.clone()));
        }
        Op::Block(data) => {
            let mut s = SyncProtocol::new(h.storage.clone(), h.peers.clone());
            rt.block_on(s.received(RecNet::new(P::Sync.sp(), h.log.clone()), h.peer, data.clone()));
        }
        Op::ForkProof(data) => {
            let mut lc = super::super::client::new_lc(&h.storage, &h.peers, &h.consensus, &h.ccfg);
            rt.block_on(lc.received(RecNet::new(P::Lc.sp(), h.log.clone()), h.peer, data.clone()));
        }
    }
}

/// observable outcome: script set, filter progress, pending matched blocks (store and memory), index dump
fn digest(h: &Handles) -> Value {
    let scripts: BTreeMap<String, u64> = h
        .storage
        .get_filter_scripts()
        .into_iter()
        .map(|s| (format!("{}:{}", if matches!(s.script_type, crate::storage::ScriptType::Lock) { "L" } else { "T" }, hex(&s.script.args().raw_data())), s.block_number))
        .collect();
    let mut mem: Vec<String> = h.peers.matched_blocks().read().map(|m| m.iter().map(|(k, (p, b))| format!("{:x}:{}:{}", k, p, b.is_some())).collect()).unwrap_or_else(|_| vec!["POISONED".into()]);
    mem.sort();
    let stored = h.storage.get_earliest_matched_blocks().map(|(s, c, b)| format!("{}+{}x{}", s, c, b.len()));
    let idx = super::super::client::digest_kv(&dump_index(&h.storage));
    let tip = h.storage.get_tip_header().calc_header_hash();
    let last_n: Vec<String> = h.storage.get_last_n_headers().into_iter().map(|(n, hh)| format!("{}:{}", n, hex(&hh.as_slice()[..4]))).collect();
    json!({"tip": hex(&tip.as_slice()[..6]), "last_n": last_n, "scripts": scripts, "min_filtered": h.storage.get_min_filtered_block_number(), "stored_matched": stored, "memory_matched": mem, "index": hex(&idx[..8])})
}

struct Setup {
    w: World,
    h: Handles,
    ops: Vec<Op>,
}

/// deterministic S0: scripts registered, filter sync running, a batch of matched blocks pending with all
/// but one block downloaded; plus the messages of the protocol ops that are due next
fn setup(seed: u64) -> Option<Setup> {
    let mut rng = Rng::new(seed);
    let (now, base_ts) = time_base();
    let mut params = gen_params(&mut rng, seed, base_ts);
    params.tx_density = 100;
    params.n_locks = 3;
    params.n_types = 0;
    let len = rng.range(30, 60);
    let ccfg = ClientCfg { last_n: 5, cp_interval: 2000, max_outbound: 1, mmr_epoch: 0, blocks_in_transit: 16 };
    let main = Chain::generate(params, len);
    let mut w = World::new(main, ccfg, seed, now);
    let regs: Registered = vec![(lock_script(0), ST::Lock, 0), (lock_script(1), ST::Lock, 0)];
    set_scripts(&w, &regs, None);
    let pi = w.add_peer(0, true);
    w.peers[pi].opts = ServerOpts { filters_batch: 6, ..ServerOpts::new(2000) };
    w.connect_all();
    // run until matched blocks are pending and exactly one block of the batch is still missing; hold back its SendBlock
    struct Hold {
        held: Option<P2pBytes>,
        target_left: usize,
        filter_batches: u32,
    }
    impl super::super::world::Hook for Hold {
        fn respond(&mut self, _w: &mut World, _pi: usize, sent: &super::super::net::Sent, honest: Vec<super::super::world::Resp>) -> Vec<super::super::world::Resp> {
            if sent.proto == P::Filter.id() && server::kind_of(P::Filter, &sent.data) == "GetBlockFilters" {
                // only the first batches are answered: the filter progress stays behind the proven tip,
                // so that "the next BlockFilters message" is a meaningful operation
                self.filter_batches += 1;
                if self.filter_batches > 2 {
                    return vec![];
                }
            }
            if sent.proto == P::Sync.id() && self.held.is_none() && !honest.is_empty() {
                // hold back the block with the highest number (the request order is a HashMap order)
                let mut v = honest;
                let num = |r: &super::super::world::Resp| -> u64 {
                    packed::SyncMessageReader::from_compatible_slice(&r.data)
                        .ok()
                        .and_then(|m| match m.to_enum() {
                            packed::SyncMessageUnionReader::SendBlock(b) => Some(b.block().header().raw().number().unpack()),
                            _ => None,
                        })
                        .unwrap_or(0)
                };
                let (imax, _) = v.iter().enumerate().max_by_key(|(_, r)| num(r)).unwrap();
                let last = v.remove(imax);
                self.held = Some(last.data);
                self.target_left = 1;
                return v;
            }
            honest
        }
    }
    let mut hold = Hold { held: None, target_left: 0, filter_batches: 0 };
    for _ in 0..40 {
        w.round(&mut hold);
        if hold.held.is_some() || w.dead {
            break;
        }
    }
    if hold.held.is_none() && std::env::var("VERIF_DEBUG").is_ok() {
        eprintln!("DEBUG setup: nothing held; min_filtered {} pending {} dead {}", w.c().storage.get_min_filtered_block_number(), w.matched_pending(), w.dead);
    }
    let held = hold.held?;
    if w.dead {
        return None;
    }
    // let everything else in flight arrive, without timers
    w.pump(&mut NoHook, 10_000);
    let c = w.c();
    let still_missing = c.peers.matched_blocks().read().unwrap().values().filter(|(_, b)| b.is_none()).count();
    if still_missing != 1 {
        if std::env::var("VERIF_DEBUG").is_ok() {
            eprintln!("DEBUG setup: still_missing {}", still_missing);
        }
        return None;
    }
    let minf = c.storage.get_min_filtered_block_number();
    let chain = &w.chains[0];
    if minf + 1 > chain.tip() {
        return None;
    }
    let filters = server::block_filters(chain, minf + 1, 6)?;
    let peer = w.peers[pi].id;
    let fork_proof = capture_fork_proof(&mut w, pi, seed)?;
    let c = w.c();
    let h = Handles { storage: c.storage.clone(), peers: c.peers.clone(), peer, log: c.log.clone(), consensus: c.consensus.clone(), ccfg: ClientCfg { last_n: 5, cp_interval: 2000, max_outbound: 1, mmr_epoch: 0, blocks_in_transit: 16 } };
    let ops = vec![
        Op::SetScripts("all", vec![(lock_script(2), ST::Lock, 3)]),
        Op::SetScripts("partial", vec![(lock_script(2), ST::Lock, 0)]),
        Op::SetScripts("delete", vec![(lock_script(1), ST::Lock, 0)]),
        Op::Filters(server::filter_msg(filters)),
        Op::Block(held),
        Op::ForkProof(fork_proof),
    ];
    Some(Setup { w, h, ops })
}


/// the fork switch: the peer moves to a heavier branch that forks two blocks below the proved tip; it announces the new
/// tip, the client asks for the proof (start = its tip on the abandoned branch), the answer is kept as an operation
fn capture_fork_proof(w: &mut World, pi: usize, seed: u64) -> Option<P2pBytes> {
        let tipn: u64 = w.c().storage.get_tip_header().raw().number().unpack();
        if tipn < 6 || w.chains[0].tip() != tipn {
            if std::env::var("VERIF_DEBUG").is_ok() {
                eprintln!("DEBUG setup: client tip {} chain tip {}", tipn, w.chains[0].tip());
            }
            return None;
        }
        let f = w.chains[0].fork(tipn - 2, 9, seed | 1);
        let nci = w.add_chain(f);
        w.switch_peer_chain(pi, nci);
        let ann = server::lc_msg(server::last_state(&w.chains[nci]));
        let _ = w.deliver(pi, super::super::world::Resp::honest(P::Lc, ann), &mut NoHook);
        struct Cap(Option<P2pBytes>);
        impl super::super::world::Hook for Cap {
            fn respond(&mut self, _w: &mut World, _pi: usize, sent: &super::super::net::Sent, honest: Vec<super::super::world::Resp>) -> Vec<super::super::world::Resp> {
                if sent.proto == P::Lc.id() && server::kind_of(P::Lc, &sent.data) == "GetLastStateProof" {
                    if let Some(r) = honest.into_iter().find(|r| server::kind_of(P::Lc, &r.data) == "SendLastStateProof") {
                        self.0 = Some(r.data);
                    }
                }
                vec![]
            }
        }
        let mut cap = Cap(None);
        w.route(&mut cap);
        // the proof request for a new last state goes out with the refresh tick
        w.advance(1_000);
        let _ = w.fire(P::Lc, crate::protocols::light_client::constant::REFRESH_PEERS_TOKEN, &mut cap);
        w.route(&mut cap);
        if w.dead {
            return None;
        }
        if cap.0.is_none() && std::env::var("VERIF_DEBUG").is_ok() {
            eprintln!("DEBUG setup: no proof request captured; trace {:?}", w.trace_vec().into_iter().rev().take(6).collect::<Vec<_>>());
        }
        cap.0
    }

/// second prepared state: the client is fully synced (filter progress = proved tip, index complete) and the network then
/// switches to a branch that forks two blocks below the tip: the fork rollback has index entries to delete and the filter
/// progress to rewind. Operations: the three set_scripts commands and the fork proof.
fn setup_synced(seed: u64) -> Option<Setup> {
    let mut rng = Rng::new(seed ^ 0x5e7);
    let (now, base_ts) = time_base();
    let mut params = gen_params(&mut rng, seed, base_ts);
    params.tx_density = 100;
    params.n_locks = 3;
    params.n_types = 0;
    let len = rng.range(20, 40);
    let ccfg = ClientCfg { last_n: 5, cp_interval: 2000, max_outbound: 1, mmr_epoch: 0, blocks_in_transit: 16 };
    let main = Chain::generate(params, len);
    let mut w = World::new(main, ccfg.clone(), seed, now);
    let regs: Registered = vec![(lock_script(0), ST::Lock, 0), (lock_script(1), ST::Lock, 0)];
    set_scripts(&w, &regs, None);
    let pi = w.add_peer(0, true);
    w.connect_all();
    w.run_until(&mut NoHook, 80, |w| w.converged_on(0))?;
    if w.dead {
        return None;
    }
    let peer = w.peers[pi].id;
    let fork_proof = capture_fork_proof(&mut w, pi, seed)?;
    let c = w.c();
    let h = Handles { storage: c.storage.clone(), peers: c.peers.clone(), peer, log: c.log.clone(), consensus: c.consensus.clone(), ccfg };
    let ops = vec![
        Op::SetScripts("all", vec![(lock_script(2), ST::Lock, 3)]),
        Op::SetScripts("partial", vec![(lock_script(2), ST::Lock, 0)]),
        Op::SetScripts("delete", vec![(lock_script(1), ST::Lock, 0)]),
        Op::ForkProof(fork_proof),
    ];
    Some(Setup { w, h, ops })
}

fn make(seed: u64, variant: u8) -> Option<Setup> {
    if variant == 0 {
        setup(seed)
    } else {
        setup_synced(seed)
    }
}

fn n_ops(variant: u8) -> usize {
    if variant == 0 {
        6
    } else {
        4
    }
}

/// run the operations one after another in the given order; (final state, S0)
fn run_serial_seq(seed: u64, variant: u8, order: &[usize]) -> Option<(Value, Value)> {
    let s = make(seed, variant)?;
    let s0 = digest(&s.h);
    for i in order {
        if guarded(|| exec(&s.h, &s.ops[*i])).is_err() {
            return None;
        }
    }
    let d = digest(&s.h);
    let mut s = s;
    s.w.close();
    Some((d, s0))
}

fn permutations(v: &[usize]) -> Vec<Vec<usize>> {
    if v.len() <= 1 {
        return vec![v.to_vec()];
    }
    let mut out = vec![];
    for i in 0..v.len() {
        let mut rest = v.to_vec();
        let x = rest.remove(i);
        for mut p in permutations(&rest) {
            p.insert(0, x);
            out.push(p);
        }
    }
    out
}

enum ConcN {
    Done { state: Value, parked: usize, finished_before_release: usize },
    Deadlock(String),
    Inconclusive(String),
}

/// randomized multi-thread run: every operation on its own thread, each parked before its k-th storage write (0 = never),
/// threads started in `start_order` (a short grace period after each start lets it reach its pause point, finish, or block on
/// a lock), released in `release_order`; a thread that reaches its pause point later is released at once
fn run_random(seed: u64, variant: u8, picks: &[(usize, u64)], start_order: &[usize], release_order: &[usize]) -> ConcN {
    let s = match make(seed, variant) {
        Some(s) => s,
        None => return ConcN::Inconclusive("setup".into()),
    };
    let Setup { mut w, h, ops } = s;
    let h = Arc::new(h);
    struct T {
        parked_rx: std::sync::mpsc::Receiver<()>,
        release_tx: std::sync::mpsc::Sender<bool>,
        done_rx: std::sync::mpsc::Receiver<bool>,
        handle: Option<std::thread::JoinHandle<()>>,
        parked: bool,
        released: bool,
        done: Option<bool>,
    }
    let mut ts: Vec<Option<T>> = picks.iter().map(|_| None).collect();
    let mut finished_before_release = 0;
    let poll = |t: &mut T| {
        if !t.parked && t.parked_rx.try_recv().is_ok() {
            t.parked = true;
        }
        if t.done.is_none() {
            if let Ok(ok) = t.done_rx.try_recv() {
                t.done = Some(ok);
            }
        }
    };
    for &i in start_order {
        let (op_idx, k) = picks[i];
        let (parked_tx, parked_rx) = channel::<()>();
        let (release_tx, release_rx) = channel::<bool>();
        let (done_tx, done_rx) = channel::<bool>();
        let (hh, op) = (h.clone(), ops[op_idx].clone());
        let handle = std::thread::spawn(move || {
            super::super::util::install_panic_hook();
            let mut count = 0u64;
            let mut parked_tx = Some(parked_tx);
            crate::verif_hook::install(Box::new(move |site| {
                if site.starts_with("read:") {
                    return;
                }
                count += 1;
                if k != 0 && count == k {
                    if let Some(tx) = parked_tx.take() {
                        let _ = tx.send(());
                        if let Ok(false) | Err(_) = release_rx.recv() {
                            std::panic::panic_any(AbortExperiment);
                        }
                    }
                }
            }));
            let r = guarded(|| exec(&hh, &op));
            crate::verif_hook::clear();
            let _ = done_tx.send(r.is_ok());
        });
        let mut t = T { parked_rx, release_tx, done_rx, handle: Some(handle), parked: false, released: false, done: None };
        // grace period: parked, finished, or (blocked on a lock / still running) after 40 ms
        let t0 = std::time::Instant::now();
        while t0.elapsed() < Duration::from_millis(40) {
            poll(&mut t);
            if t.parked || t.done.is_some() {
                break;
            }
            std::thread::sleep(Duration::from_millis(1));
        }
        ts[i] = Some(t);
    }
    let parked_n = ts.iter().flatten().filter(|t| t.parked).count();
    for t in ts.iter_mut().flatten() {
        poll(t);
        if t.done.is_some() {
            finished_before_release += 1;
        }
    }
    for &i in release_order {
        let t = ts[i].as_mut().unwrap();
        poll(t);
        if t.parked && !t.released {
            let _ = t.release_tx.send(true);
            t.released = true;
            std::thread::sleep(Duration::from_millis((seed.wrapping_add(i as u64) % 4) as u64));
        }
    }
    // join: late arrivals at a pause point are released at once; deadlock = every thread asleep, nothing parked, no CPU progress
    let t0 = std::time::Instant::now();
    let mut last_states = String::new();
    let mut same_count = 0;
    loop {
        let mut all_done = true;
        for t in ts.iter_mut().flatten() {
            poll(t);
            if t.parked && !t.released {
                let _ = t.release_tx.send(true);
                t.released = true;
            }
            if t.done.is_none() {
                all_done = false;
            }
        }
        if all_done {
            break;
        }
        std::thread::sleep(Duration::from_millis(5));
        if t0.elapsed() > Duration::from_secs(3) {
            let st = thread_states();
            if st == last_states {
                same_count += 1;
            } else {
                same_count = 0;
                last_states = st.clone();
            }
            let unreleased = ts.iter().flatten().any(|t| t.parked && !t.released);
            if same_count >= 10 && !st.contains(":R:") && !unreleased {
                for t in ts.iter_mut().flatten() {
                    std::mem::forget(t.handle.take());
                }
                std::mem::forget(w);
                return ConcN::Deadlock(st);
            }
            std::thread::sleep(Duration::from_millis(200));
        }
        if t0.elapsed() > Duration::from_secs(60) {
            for t in ts.iter_mut().flatten() {
                std::mem::forget(t.handle.take());
            }
            std::mem::forget(w);
            return ConcN::Inconclusive("watchdog".into());
        }
    }
    let mut ok = true;
    for t in ts.iter_mut().flatten() {
        if let Some(hd) = t.handle.take() {
            let _ = hd.join();
        }
        ok &= t.done == Some(true);
    }
    if !ok {
        w.close();
        return ConcN::Inconclusive("an operation panicked".into());
    }
    let d = digest(&h);
    drop(h);
    w.close();
    ConcN::Done { state: d, parked: parked_n, finished_before_release }
}

fn run_serial(seed: u64, variant: u8, a: usize, b: usize) -> Option<(Value, u64, Value)> {
    let s = match make(seed, variant) {
        Some(s) => s,
        None => {
            if std::env::var("VERIF_DEBUG").is_ok() {
                eprintln!("DEBUG setup returned None");
            }
            return None;
        }
    };
    let s0 = digest(&s.h);
    let counter = std::rc::Rc::new(std::cell::RefCell::new(0u64));
    let c2 = counter.clone();
    crate::verif_hook::install(Box::new(move |site| {
        if !site.starts_with("read:") {
            *c2.borrow_mut() += 1
        }
    }));
    let ra = guarded(|| exec(&s.h, &s.ops[a]));
    let writes_a = *counter.borrow();
    crate::verif_hook::clear();
    let rb = guarded(|| exec(&s.h, &s.ops[b]));
    if ra.is_err() || rb.is_err() {
        if std::env::var("VERIF_DEBUG").is_ok() {
            for r in [&ra, &rb] {
                if let Err(Unwound::Panic(p)) = r {
                    eprintln!("DEBUG serial op panicked: {} at {}", p.message, p.location);
                }
            }
        }
        return None;
    }
    let d = digest(&s.h);
    if std::env::var("VERIF_DEBUG").is_ok() && (a == 5 || b == 5) {
        eprintln!("DEBUG serial {}/{} writes_a {}\n  s0 {}\n  d  {}\n  bans {:?}", a, b, writes_a, s0, d, s.h.log.bans_len());
    }
    let mut s = s;
    s.w.close();
    Some((d, writes_a, s0))
}

enum Conc {
    Done { state: Value, b_finished_while_a_parked: bool, lock_free_at_park: bool },
    NotReached,
    Deadlock(String),
    Inconclusive(String),
}

fn thread_states() -> String {
    let mut v = vec![];
    if let Ok(rd) = std::fs::read_dir("/proc/self/task") {
        for e in rd.flatten() {
            if let Ok(s) = std::fs::read_to_string(e.path().join("stat")) {
                let after = s.rsplit(')').next().unwrap_or("");
                let f: Vec<&str> = after.split_whitespace().collect();
                if f.len() > 13 {
                    v.push(format!("{}:{}:{}", e.file_name().to_string_lossy(), f[0], f[11].parse::<u64>().unwrap_or(0) + f[12].parse::<u64>().unwrap_or(0)));
                }
            }
        }
    }
    v.sort();
    v.join(",")
}

fn run_concurrent(seed: u64, variant: u8, a: usize, b: usize, k: u64) -> Conc {
    let s = match make(seed, variant) {
        Some(s) => s,
        None => return Conc::Inconclusive("setup".into()),
    };
    let Setup { mut w, h, ops } = s;
    let h = Arc::new(h);
    let (parked_tx, parked_rx) = channel::<()>();
    let (release_tx, release_rx) = channel::<bool>();
    let (done_a_tx, done_a_rx) = channel::<bool>();
    let (done_b_tx, done_b_rx) = channel::<bool>();
    let (ha, opa) = (h.clone(), ops[a].clone());
    let ta = std::thread::spawn(move || {
        super::super::util::install_panic_hook();
        let mut count = 0u64;
        let mut parked_tx = Some(parked_tx);
        crate::verif_hook::install(Box::new(move |site| {
            if site.starts_with("read:") {
                return;
            }
            count += 1;
            if count == k {
                if let Some(tx) = parked_tx.take() {
                    let _ = tx.send(());
                    // wait for the release; `false` = abort the experiment
                    if let Ok(false) | Err(_) = release_rx.recv() {
                        std::panic::panic_any(AbortExperiment);
                    }
                }
            }
        }));
        let r = guarded(|| exec(&ha, &opa));
        crate::verif_hook::clear();
        let _ = done_a_tx.send(r.is_ok());
    });
    // wait until A is parked (or finished without reaching write k)
    let mut a_done: Option<bool> = None;
    let parked = loop {
        match parked_rx.recv_timeout(Duration::from_millis(50)) {
            Ok(()) => break true,
            Err(RecvTimeoutError::Timeout) | Err(RecvTimeoutError::Disconnected) => {
                if let Ok(ok) = done_a_rx.try_recv() {
                    a_done = Some(ok);
                    break false;
                }
            }
        }
    };
    if !parked {
        let _ = ta.join();
        w.close();
        return if a_done == Some(true) { Conc::NotReached } else { Conc::Inconclusive("op A failed".into()) };
    }
    let lock_free = h.peers.matched_blocks().try_write().is_ok();
    let (hb, opb) = (h.clone(), ops[b].clone());
    let tb = std::thread::spawn(move || {
        super::super::util::install_panic_hook();
        let r = guarded(|| exec(&hb, &opb));
        let _ = done_b_tx.send(r.is_ok());
    });
    // grace period: does B finish while A is parked? (an observation, not a verdict)
    let mut b_done = done_b_rx.recv_timeout(Duration::from_millis(60)).ok();
    let b_early = b_done.is_some();
    let _ = release_tx.send(true);
    // join both with a generous watchdog; distinguish deadlock from slowness by thread states
    let mut a_ok = None;
    let t0 = std::time::Instant::now();
    let mut last_states = String::new();
    let mut same_count = 0;
    loop {
        if a_ok.is_none() {
            a_ok = done_a_rx.recv_timeout(Duration::from_millis(20)).ok();
        }
        if b_done.is_none() {
            b_done = done_b_rx.recv_timeout(Duration::from_millis(20)).ok();
        }
        if a_ok.is_some() && b_done.is_some() {
            break;
        }
        if t0.elapsed() > Duration::from_secs(3) {
            let st = thread_states();
            if st == last_states {
                same_count += 1;
            } else {
                same_count = 0;
                last_states = st.clone();
            }
            if same_count >= 10 && !st.contains(":R:") {
                // every thread asleep, no CPU progress over ten samples, nothing parked: deadlock
                std::mem::forget(ta);
                std::mem::forget(tb);
                std::mem::forget(w);
                return Conc::Deadlock(st);
            }
            std::thread::sleep(Duration::from_millis(200));
        }
        if t0.elapsed() > Duration::from_secs(60) {
            std::mem::forget(ta);
            std::mem::forget(tb);
            std::mem::forget(w);
            return Conc::Inconclusive("watchdog".into());
        }
    }
    let _ = ta.join();
    let _ = tb.join();
    if a_ok != Some(true) || b_done != Some(true) {
        w.close();
        return Conc::Inconclusive("an operation panicked".into());
    }
    let d = digest(&h);
    drop(h);
    w.close();
    Conc::Done { state: d, b_finished_while_a_parked: b_early, lock_free_at_park: lock_free }
}

pub fn run(cfg: &RunCfg, out: &Out) {
    // reader clause first (cheap): paged queries parked mid-scan while a writer sequence runs
    super::c17r::run(cfg, out, cfg.budget);
    for variant in [0u8, 1] {
    let n_ops = n_ops(variant);
    let vname = if variant == 0 { "" } else { "synced:" };
    let mut pairs: Vec<(usize, usize)> = vec![];
    for a in 0..n_ops {
        for b in 0..n_ops {
            pairs.push((a, b));
        }
    }
    for k in 0..cfg.budget {
        if out.time_up() {
            break;
        }
        let seed = cfg.scenario_seed(k);
        // every shard takes a slice of the pairs of every S0
        for (pi, (a, b)) in pairs.iter().enumerate() {
            if (pi as u64 + variant as u64 * 5) % cfg.shards != cfg.shard {
                continue;
            }
            if out.time_up() {
                break;
            }
            let ab = run_serial(seed, variant, *a, *b);
            let ba = run_serial(seed, variant, *b, *a);
            let (ab, ba) = match (ab, ba) {
                (Some(x), Some(y)) => (x, y),
                _ => {
                    out.count("setups_discarded", 1);
                    continue;
                }
            };
            if ab.2 != ba.2 {
                out.count("setups_not_reproducible", 1);
                continue;
            }
            let names = {
                let s = make(seed, variant);
                match s {
                    Some(mut s) => {
                        let n = (format!("{}{}", vname, s.ops[*a].name()), format!("{}{}", vname, s.ops[*b].name()));
                        s.w.close();
                        n
                    }
                    None => continue,
                }
            };
            let w_a = ab.1;
            for kk in 1..=w_a {
                match run_concurrent(seed, variant, *a, *b, kk) {
                    Conc::Done { state, b_finished_while_a_parked, lock_free_at_park } => {
                        out.eval(1);
                        let which = if state == ab.0 { "A;B" } else if state == ba.0 { "B;A" } else { "NEITHER" };
                        out.cell(&format!("{}|{}|k{}|b-early={}|lock-free={}|{}", names.0, names.1, kk, b_finished_while_a_parked, lock_free_at_park, which));
                        if which == "NEITHER" {
                            out.violation("C17.R1", &format!("C17|outcome-equals-no-serial-order|A={}|B={}", names.0, names.1),
                                json!({"seed": seed, "A": names.0, "B": names.1, "A_parked_before_write": kk, "of": w_a, "b_finished_while_a_parked": b_finished_while_a_parked, "lock_free_at_park": lock_free_at_park,
                                    "concurrent": state, "serial_A_then_B": ab.0, "serial_B_then_A": ba.0, "S0": ab.2}), k);
                        }
                        out.sample(&format!("{}|{}", names.0, names.1), 1, || json!({"A": names.0, "B": names.1, "k": kk, "of": w_a, "matched": which, "lock_free_at_park": lock_free_at_park}));
                    }
                    Conc::NotReached => out.count("pause_points_not_reached", 1),
                    Conc::Deadlock(st) => {
                        out.eval(1);
                        out.violation("C17.R3", &format!("C17|deadlock|A={}|B={}", names.0, names.1), json!({"seed": seed, "k": kk, "threads": st}), k);
                    }
                    Conc::Inconclusive(why) => out.count(&format!("inconclusive_{}", why.replace(' ', "_")), 1),
                }
            }
        }
    }
    }
    // randomized multi-thread runs: three operations on three threads, random pause points, start and release orders
    let rounds = if cfg.tier == "thorough" { 40 } else { 3 };
    for k in 0..cfg.budget {
        for r in 0..rounds {
            if out.time_up() {
                break;
            }
            let seed = cfg.scenario_seed(k);
            let mut rng = Rng::new(super::super::rng::mix(seed, 0xabc0 + r * cfg.shards + cfg.shard));
            let variant = if rng.chance(1, 3) { 1u8 } else { 0 };
            let n = n_ops(variant);
            let mut idx: Vec<usize> = (0..n).collect();
            let mut chosen = vec![];
            for _ in 0..3 {
                chosen.push(idx.remove(rng.pick_idx(idx.len())));
            }
            let picks: Vec<(usize, u64)> = chosen.iter().map(|o| (*o, if rng.chance(1, 4) { 0 } else { rng.range(1, 4) })).collect();
            let mut start_order = vec![0usize, 1, 2];
            let mut release_order = vec![0usize, 1, 2];
            for v in [&mut start_order, &mut release_order] {
                for i in (1..v.len()).rev() {
                    let j = rng.pick_idx(i + 1);
                    v.swap(i, j);
                }
            }
            let mut serial: Vec<(Vec<usize>, Value)> = vec![];
            let mut s0: Option<Value> = None;
            let mut bad = false;
            for p in permutations(&chosen) {
                match run_serial_seq(seed, variant, &p) {
                    Some((d, z)) => {
                        if s0.as_ref().map(|x| x != &z).unwrap_or(false) {
                            bad = true;
                        }
                        s0 = Some(z);
                        serial.push((p, d));
                    }
                    None => bad = true,
                }
            }
            if bad {
                out.count("random_setups_discarded", 1);
                continue;
            }
            let names: Vec<String> = match make(seed, variant) {
                Some(mut s) => {
                    let n = chosen.iter().map(|o| s.ops[*o].name()).collect();
                    s.w.close();
                    n
                }
                None => continue,
            };
            match run_random(seed, variant, &picks, &start_order, &release_order) {
                ConcN::Done { state, parked, finished_before_release } => {
                    out.eval(1);
                    out.count("random_multi_thread_runs", 1);
                    let matched = serial.iter().find(|(_, d)| d == &state).map(|(p, _)| p.iter().map(|o| chosen.iter().position(|c| c == o).unwrap().to_string()).collect::<Vec<_>>().join(""));
                    let distinct: std::collections::BTreeSet<String> = serial.iter().map(|(_, d)| d.to_string()).collect();
                    let mut sorted_names = names.clone();
                    sorted_names.sort();
                    out.cell(&format!("random3|v{}|{}|parked={}|early={}|serial-outcomes={}|{}", variant, sorted_names.join("+"), parked, finished_before_release, distinct.len(), if matched.is_some() { "serial" } else { "NEITHER" }));
                    out.sample("random3", 2, || json!({"ops": names, "pause_before_write": picks.iter().map(|p| p.1).collect::<Vec<_>>(), "start_order": start_order, "release_order": release_order, "parked": parked, "matched_serial_order": matched, "distinct_serial_outcomes": distinct.len()}));
                    if matched.is_none() {
                        out.violation("C17.R1", &format!("C17|random3|outcome-equals-no-serial-order|{}", sorted_names.join("+")),
                            json!({"seed": seed, "variant": variant, "ops": names, "pause_before_write": picks.iter().map(|p| p.1).collect::<Vec<_>>(), "start_order": start_order, "release_order": release_order,
                                "concurrent": state, "serial": serial.iter().map(|(p, d)| json!({"order": p, "state": d})).collect::<Vec<_>>(), "S0": s0}), k);
                    }
                }
                ConcN::Deadlock(st) => {
                    out.eval(1);
                    out.violation("C17.R3", &format!("C17|random3|deadlock|{}", names.join("+")), json!({"seed": seed, "threads": st}), k);
                }
                ConcN::Inconclusive(why) => out.count(&format!("random_inconclusive_{}", why.replace(' ', "_")), 1),
            }
        }
    }
    let _ = Unwound::Abort;
}
