//! C17 - concurrent RPC calls and protocol handlers behave like some serial order.
//! Pause-point experiments on real threads: op A is parked before its k-th storage write (hook), op B is
//! started on another thread, A is released; the final state must equal one of the two serial outcomes.

use std::collections::BTreeMap;
use std::sync::mpsc::{channel, RecvTimeoutError};
use std::sync::Arc;
use std::time::Duration;

use ckb_network::{bytes::Bytes as P2pBytes, CKBProtocolHandler, PeerIndex};
use ckb_types::{packed, prelude::*};
use serde_json::{json, Value};

use crate::protocols::{FilterProtocol, Peers, SyncProtocol};
use crate::service::{BlockFilterRpc, BlockFilterRpcImpl, SetScriptsCommand};
use crate::storage::{Storage, StorageWithChainData};

use super::super::chain::{lock_script, Chain};
use super::super::client::{dump_index, ClientCfg};
use super::super::net::{NetLog, RecNet, P};
use super::super::out::{hex, Out, RunCfg};
use super::super::refidx::{Registered, ST};
use super::super::rng::Rng;
use super::super::server::{self, ServerOpts};
use super::super::util::{guarded, AbortExperiment, Unwound};
use super::super::world::{NoHook, World};
use super::common::*;

#[derive(Clone, Debug)]
enum Op {
    SetScripts(&'static str, Registered),
    /// deliver this BlockFilters message (the honest answer to the client's next request)
    Filters(P2pBytes),
    /// deliver this SendBlock (the last block of the pending batch)
    Block(P2pBytes),
    /// deliver this SendLastStateProof: the network switched to a branch that forks off a remembered last-N header
    /// (reorg section present: commit_prove_state removes matched blocks above the fork point and rolls the index back)
    ForkProof(P2pBytes),
}

impl Op {
    fn name(&self) -> String {
        match self {
            Op::SetScripts(c, r) => format!("set_scripts({},{})", c, r.len()),
            Op::Filters(_) => "BlockFilters".into(),
            Op::Block(_) => "SendBlock(last of batch)".into(),
            Op::ForkProof(_) => "SendLastStateProof(fork rollback)".into(),
        }
    }
}

struct Handles {
    storage: Storage,
    peers: Arc<Peers>,
    peer: PeerIndex,
    log: NetLog,
    consensus: ckb_chain_spec::consensus::Consensus,
    ccfg: ClientCfg,
}

fn exec(h: &Handles, op: &Op) {
    let rt = tokio::runtime::Builder::new_current_thread().build().unwrap();
    match op {
        Op::SetScripts(cmd, regs) => {
            let rpc = BlockFilterRpcImpl { swc: StorageWithChainData::new(h.storage.clone(), h.peers.clone(), Default::default()) };
            let v: Vec<_> = regs.iter().map(|(s, st, n)| to_rpc_status(s, *st, *n)).collect();
            let c = match *cmd {
                "all" => SetScriptsCommand::All,
                "partial" => SetScriptsCommand::Partial,
                _ => SetScriptsCommand::Delete,
            };
            rpc.set_scripts(v, Some(c)).expect("set_scripts");
        }
        Op::Filters(data) => {
            let mut f = FilterProtocol::new(h.storage.clone(), h.peers.clone());
            rt.block_on(f.received(RecNet::new(P::Filter.sp(), h.log.clone()), h.peer, data.clone()));
        }
        Op::Block(data) => {
            let mut s = SyncProtocol::new(h.storage.clone(), h.peers.clone());
            rt.block_on(s.received(RecNet::new(P::Sync.sp(), h.log.clone()), h.peer, data.clone()));
        }
        Op::ForkProof(data) => {
            let mut lc = super::super::client::new_lc(&h.storage, &h.peers, &h.consensus, &h.ccfg);
            rt.block_on(lc.received(RecNet::new(P::Lc.sp(), h.log.clone()), h.peer, data.clone()));
        }
    }
}

/// observable outcome: script set, filter progress, pending matched blocks (store and memory), index dump
fn digest(h: &Handles) -> Value {
    let scripts: BTreeMap<String, u64> = h
        .storage
        .get_filter_scripts()
        .into_iter()
        .map(|s| (format!("{}:{}", if matches!(s.script_type, crate::storage::ScriptType::Lock) { "L" } else { "T" }, hex(&s.script.args().raw_data())), s.block_number))
        .collect();
    let mut mem: Vec<String> = h.peers.matched_blocks().read().map(|m| m.iter().map(|(k, (p, b))| format!("{:x}:{}:{}", k, p, b.is_some())).collect()).unwrap_or_else(|_| vec!["POISONED".into()]);
    mem.sort();
    let stored = h.storage.get_earliest_matched_blocks().map(|(s, c, b)| format!("{}+{}x{}", s, c, b.len()));
    let idx = super::super::client::digest_kv(&dump_index(&h.storage));
    let tip = h.storage.get_tip_header().calc_header_hash();
    let last_n: Vec<String> = h.storage.get_last_n_headers().into_iter().map(|(n, hh)| format!("{}:{}", n, hex(&hh.as_slice()[..4]))).collect();
    json!({"tip": hex(&tip.as_slice()[..6]), "last_n": last_n, "scripts": scripts, "min_filtered": h.storage.get_min_filtered_block_number(), "stored_matched": stored, "memory_matched": mem, "index": hex(&idx[..8])})
}

struct Setup {
    w: World,
    h: Handles,
    ops: Vec<Op>,
}

/// deterministic S0: scripts registered, filter sync running, a batch of matched blocks pending with all
/// but one block downloaded; plus the messages of the protocol ops that are due next
fn setup(seed: u64) -> Option<Setup> {
    let mut rng = Rng::new(seed);
    let (now, base_ts) = time_base();
    let mut params = gen_params(&mut rng, seed, base_ts);
    params.tx_density = 100;
    params.n_locks = 3;
    params.n_types = 0;
    let len = rng.range(30, 60);
    let ccfg = ClientCfg { last_n: 5, cp_interval: 2000, max_outbound: 1, mmr_epoch: 0, blocks_in_transit: 16 };
    let main = Chain::generate(params, len);
    let mut w = World::new(main, ccfg, seed, now);
    let regs: Registered = vec![(lock_script(0), ST::Lock, 0), (lock_script(1), ST::Lock, 0)];
    set_scripts(&w, &regs, None);
    let pi = w.add_peer(0, true);
    w.peers[pi].opts = ServerOpts { filters_batch: 6, ..ServerOpts::new(2000) };
    w.connect_all();
    // run until matched blocks are pending and exactly one block of the batch is still missing; hold back its SendBlock
    struct Hold {
        held: Option<P2pBytes>,
        target_left: usize,
        filter_batches: u32,
    }
    impl super::super::world::Hook for Hold {
        fn respond(&mut self, _w: &mut World, _pi: usize, sent: &super::super::net::Sent, honest: Vec<super::super::world::Resp>) -> Vec<super::super::world::Resp> {
            if sent.proto == P::Filter.id() && server::kind_of(P::Filter, &sent.data) == "GetBlockFilters" {
                // only the first batches are answered: the filter progress stays behind the proven tip,
                // so that "the next BlockFilters message" is a meaningful operation
                self.filter_batches += 1;
                if self.filter_batches > 2 {
                    return vec![];
                }
            }
            if sent.proto == P::Sync.id() && self.held.is_none() && !honest.is_empty() {
                // hold back the block with the highest number (the request order is a HashMap order)
                let mut v = honest;
                let num = |r: &super::super::world::Resp| -> u64 {
                    packed::SyncMessageReader::from_compatible_slice(&r.data)
                        .ok()
                        .and_then(|m| match m.to_enum() {
                            packed::SyncMessageUnionReader::SendBlock(b) => Some(b.block().header().raw().number().unpack()),
                            _ => None,
                        })
                        .unwrap_or(0)
                };
                let (imax, _) = v.iter().enumerate().max_by_key(|(_, r)| num(r)).unwrap();
                let last = v.remove(imax);
                self.held = Some(last.data);
                self.target_left = 1;
                return v;
            }
            honest
        }
    }
    let mut hold = Hold { held: None, target_left: 0, filter_batches: 0 };
    for _ in 0..40 {
        w.round(&mut hold);
        if hold.held.is_some() || w.dead {
            break;
        }
    }
    if hold.held.is_none() && std::env::var("VERIF_DEBUG").is_ok() {
        eprintln!("DEBUG setup: nothing held; min_filtered {} pending {} dead {}", w.c().storage.get_min_filtered_block_number(), w.matched_pending(), w.dead);
    }
    let held = hold.held?;
    if w.dead {
        return None;
    }
    // let everything else in flight arrive, without timers
    w.pump(&mut NoHook, 10_000);
    let c = w.c();
    let still_missing = c.peers.matched_blocks().read().unwrap().values().filter(|(_, b)| b.is_none()).count();
    if still_missing != 1 {
        if std::env::var("VERIF_DEBUG").is_ok() {
            eprintln!("DEBUG setup: still_missing {}", still_missing);
        }
        return None;
    }
    let minf = c.storage.get_min_filtered_block_number();
    let chain = &w.chains[0];
    if minf + 1 > chain.tip() {
        return None;
    }
    let filters = server::block_filters(chain, minf + 1, 6)?;
    let peer = w.peers[pi].id;
    // the fork switch: the peer moves to a heavier branch that forks two blocks below the proved tip; it announces the new
    // tip, the client asks for the proof (start = its tip on the abandoned branch), the answer is kept as an operation
    let fork_proof = {
        let tipn: u64 = w.c().storage.get_tip_header().raw().number().unpack();
        if tipn < 6 || w.chains[0].tip() != tipn {
            if std::env::var("VERIF_DEBUG").is_ok() {
                eprintln!("DEBUG setup: client tip {} chain tip {}", tipn, w.chains[0].tip());
            }
            return None;
        }
        let f = w.chains[0].fork(tipn - 2, 9, seed | 1);
        let nci = w.add_chain(f);
        w.switch_peer_chain(pi, nci);
        let ann = server::lc_msg(server::last_state(&w.chains[nci]));
        let _ = w.deliver(pi, super::super::world::Resp::honest(P::Lc, ann), &mut NoHook);
        struct Cap(Option<P2pBytes>);
        impl super::super::world::Hook for Cap {
            fn respond(&mut self, _w: &mut World, _pi: usize, sent: &super::super::net::Sent, honest: Vec<super::super::world::Resp>) -> Vec<super::super::world::Resp> {
                if sent.proto == P::Lc.id() && server::kind_of(P::Lc, &sent.data) == "GetLastStateProof" {
                    if let Some(r) = honest.into_iter().find(|r| server::kind_of(P::Lc, &r.data) == "SendLastStateProof") {
                        self.0 = Some(r.data);
                    }
                }
                vec![]
            }
        }
        let mut cap = Cap(None);
        w.route(&mut cap);
        // the proof request for a new last state goes out with the refresh tick
        w.advance(1_000);
        let _ = w.fire(P::Lc, crate::protocols::light_client::constant::REFRESH_PEERS_TOKEN, &mut cap);
        w.route(&mut cap);
        if w.dead {
            return None;
        }
        if cap.0.is_none() && std::env::var("VERIF_DEBUG").is_ok() {
            eprintln!("DEBUG setup: no proof request captured; trace {:?}", w.trace_vec().into_iter().rev().take(6).collect::<Vec<_>>());
        }
        cap.0?
    };
    let c = w.c();
    let h = Handles { storage: c.storage.clone(), peers: c.peers.clone(), peer, log: c.log.clone(), consensus: c.consensus.clone(), ccfg: ClientCfg { last_n: 5, cp_interval: 2000, max_outbound: 1, mmr_epoch: 0, blocks_in_transit: 16 } };
    let ops = vec![
        Op::SetScripts("all", vec![(lock_script(2), ST::Lock, 3)]),
        Op::SetScripts("partial", vec![(lock_script(2), ST::Lock, 0)]),
        Op::SetScripts("delete", vec![(lock_script(1), ST::Lock, 0)]),
        Op::Filters(server::filter_msg(filters)),
        Op::Block(held),
        Op::ForkProof(fork_proof),
    ];
    Some(Setup { w, h, ops })
}

fn run_serial(seed: u64, a: usize, b: usize) -> Option<(Value, u64, Value)> {
    let s = match setup(seed) {
        Some(s) => s,
        None => {
            if std::env::var("VERIF_DEBUG").is_ok() {
                eprintln!("DEBUG setup returned None");
            }
            return None;
        }
    };
    let s0 = digest(&s.h);
    let counter = std::rc::Rc::new(std::cell::RefCell::new(0u64));
    let c2 = counter.clone();
    crate::verif_hook::install(Box::new(move |site| {
        if !site.starts_with("read:") {
            *c2.borrow_mut() += 1
        }
    }));
    let ra = guarded(|| exec(&s.h, &s.ops[a]));
    let writes_a = *counter.borrow();
    crate::verif_hook::clear();
    let rb = guarded(|| exec(&s.h, &s.ops[b]));
    if ra.is_err() || rb.is_err() {
        if std::env::var("VERIF_DEBUG").is_ok() {
            for r in [&ra, &rb] {
                if let Err(Unwound::Panic(p)) = r {
                    eprintln!("DEBUG serial op panicked: {} at {}", p.message, p.location);
                }
            }
        }
        return None;
    }
    let d = digest(&s.h);
    if std::env::var("VERIF_DEBUG").is_ok() && (a == 5 || b == 5) {
        eprintln!("DEBUG serial {}/{} writes_a {}\n  s0 {}\n  d  {}\n  bans {:?}", a, b, writes_a, s0, d, s.h.log.bans_len());
    }
    let mut s = s;
    s.w.close();
    Some((d, writes_a, s0))
}

enum Conc {
    Done { state: Value, b_finished_while_a_parked: bool, lock_free_at_park: bool },
    NotReached,
    Deadlock(String),
    Inconclusive(String),
}

fn thread_states() -> String {
    let mut v = vec![];
    if let Ok(rd) = std::fs::read_dir("/proc/self/task") {
        for e in rd.flatten() {
            if let Ok(s) = std::fs::read_to_string(e.path().join("stat")) {
                let after = s.rsplit(')').next().unwrap_or("");
                let f: Vec<&str> = after.split_whitespace().collect();
                if f.len() > 13 {
                    v.push(format!("{}:{}:{}", e.file_name().to_string_lossy(), f[0], f[11].parse::<u64>().unwrap_or(0) + f[12].parse::<u64>().unwrap_or(0)));
                }
            }
        }
    }
    v.sort();
    v.join(",")
}

fn run_concurrent(seed: u64, a: usize, b: usize, k: u64) -> Conc {
    let s = match setup(seed) {
        Some(s) => s,
        None => return Conc::Inconclusive("setup".into()),
    };
    let Setup { mut w, h, ops } = s;
    let h = Arc::new(h);
    let (parked_tx, parked_rx) = channel::<()>();
    let (release_tx, release_rx) = channel::<bool>();
    let (done_a_tx, done_a_rx) = channel::<bool>();
    let (done_b_tx, done_b_rx) = channel::<bool>();
    let (ha, opa) = (h.clone(), ops[a].clone());
    let ta = std::thread::spawn(move || {
        super::super::util::install_panic_hook();
        let mut count = 0u64;
        let mut parked_tx = Some(parked_tx);
        crate::verif_hook::install(Box::new(move |site| {
            if site.starts_with("read:") {
                return;
            }
            count += 1;
            if count == k {
                if let Some(tx) = parked_tx.take() {
                    let _ = tx.send(());
                    // wait for the release; `false` = abort the experiment
                    if let Ok(false) | Err(_) = release_rx.recv() {
                        std::panic::panic_any(AbortExperiment);
                    }
                }
            }
        }));
        let r = guarded(|| exec(&ha, &opa));
        crate::verif_hook::clear();
        let _ = done_a_tx.send(r.is_ok());
    });
    // wait until A is parked (or finished without reaching write k)
    let mut a_done: Option<bool> = None;
    let parked = loop {
        match parked_rx.recv_timeout(Duration::from_millis(50)) {
            Ok(()) => break true,
            Err(RecvTimeoutError::Timeout) | Err(RecvTimeoutError::Disconnected) => {
                if let Ok(ok) = done_a_rx.try_recv() {
                    a_done = Some(ok);
                    break false;
                }
            }
        }
    };
    if !parked {
        let _ = ta.join();
        w.close();
        return if a_done == Some(true) { Conc::NotReached } else { Conc::Inconclusive("op A failed".into()) };
    }
    let lock_free = h.peers.matched_blocks().try_write().is_ok();
    let (hb, opb) = (h.clone(), ops[b].clone());
    let tb = std::thread::spawn(move || {
        super::super::util::install_panic_hook();
        let r = guarded(|| exec(&hb, &opb));
        let _ = done_b_tx.send(r.is_ok());
    });
    // grace period: does B finish while A is parked? (an observation, not a verdict)
    let mut b_done = done_b_rx.recv_timeout(Duration::from_millis(60)).ok();
    let b_early = b_done.is_some();
    let _ = release_tx.send(true);
    // join both with a generous watchdog; distinguish deadlock from slowness by thread states
    let mut a_ok = None;
    let t0 = std::time::Instant::now();
    let mut last_states = String::new();
    let mut same_count = 0;
    loop {
        if a_ok.is_none() {
            a_ok = done_a_rx.recv_timeout(Duration::from_millis(20)).ok();
        }
        if b_done.is_none() {
            b_done = done_b_rx.recv_timeout(Duration::from_millis(20)).ok();
        }
        if a_ok.is_some() && b_done.is_some() {
            break;
        }
        if t0.elapsed() > Duration::from_secs(3) {
            let st = thread_states();
            if st == last_states {
                same_count += 1;
            } else {
                same_count = 0;
                last_states = st.clone();
            }
            if same_count >= 10 && !st.contains(":R:") {
                // every thread asleep, no CPU progress over ten samples, nothing parked: deadlock
                std::mem::forget(ta);
                std::mem::forget(tb);
                std::mem::forget(w);
                return Conc::Deadlock(st);
            }
            std::thread::sleep(Duration::from_millis(200));
        }
        if t0.elapsed() > Duration::from_secs(60) {
            std::mem::forget(ta);
            std::mem::forget(tb);
            std::mem::forget(w);
            return Conc::Inconclusive("watchdog".into());
        }
    }
    let _ = ta.join();
    let _ = tb.join();
    if a_ok != Some(true) || b_done != Some(true) {
        w.close();
        return Conc::Inconclusive("an operation panicked".into());
    }
    let d = digest(&h);
    drop(h);
    w.close();
    Conc::Done { state: d, b_finished_while_a_parked: b_early, lock_free_at_park: lock_free }
}

pub fn run(cfg: &RunCfg, out: &Out) {
    // reader clause first (cheap): paged queries parked mid-scan while a writer sequence runs
    super::c17r::run(cfg, out, cfg.budget);
    let n_ops = 6;
    let mut pairs: Vec<(usize, usize)> = vec![];
    for a in 0..n_ops {
        for b in 0..n_ops {
            pairs.push((a, b));
        }
    }
    for k in 0..cfg.budget {
        if out.time_up() {
            break;
        }
        let seed = cfg.scenario_seed(k);
        // every shard takes a slice of the pairs of every S0
        for (pi, (a, b)) in pairs.iter().enumerate() {
            if (pi as u64) % cfg.shards != cfg.shard {
                continue;
            }
            if out.time_up() {
                break;
            }
            let ab = run_serial(seed, *a, *b);
            let ba = run_serial(seed, *b, *a);
            let (ab, ba) = match (ab, ba) {
                (Some(x), Some(y)) => (x, y),
                _ => {
                    out.count("setups_discarded", 1);
                    continue;
                }
            };
            if ab.2 != ba.2 {
                out.count("setups_not_reproducible", 1);
                continue;
            }
            let names = {
                let s = setup(seed);
                match s {
                    Some(mut s) => {
                        let n = (s.ops[*a].name(), s.ops[*b].name());
                        s.w.close();
                        n
                    }
                    None => continue,
                }
            };
            let w_a = ab.1;
            for kk in 1..=w_a {
                match run_concurrent(seed, *a, *b, kk) {
                    Conc::Done { state, b_finished_while_a_parked, lock_free_at_park } => {
                        out.eval(1);
                        let which = if state == ab.0 { "A;B" } else if state == ba.0 { "B;A" } else { "NEITHER" };
                        out.cell(&format!("{}|{}|k{}|b-early={}|lock-free={}|{}", names.0, names.1, kk, b_finished_while_a_parked, lock_free_at_park, which));
                        if which == "NEITHER" {
                            out.violation("C17.R1", &format!("C17|outcome-equals-no-serial-order|A={}|B={}", names.0, names.1),
                                json!({"seed": seed, "A": names.0, "B": names.1, "A_parked_before_write": kk, "of": w_a, "b_finished_while_a_parked": b_finished_while_a_parked, "lock_free_at_park": lock_free_at_park,
                                    "concurrent": state, "serial_A_then_B": ab.0, "serial_B_then_A": ba.0, "S0": ab.2}), k);
                        }
                        out.sample(&format!("{}|{}", names.0, names.1), 1, || json!({"A": names.0, "B": names.1, "k": kk, "of": w_a, "matched": which, "lock_free_at_park": lock_free_at_park}));
                    }
                    Conc::NotReached => out.count("pause_points_not_reached", 1),
                    Conc::Deadlock(st) => {
                        out.eval(1);
                        out.violation("C17.R3", &format!("C17|deadlock|A={}|B={}", names.0, names.1), json!({"seed": seed, "k": kk, "threads": st}), k);
                    }
                    Conc::Inconclusive(why) => out.count(&format!("inconclusive_{}", why.replace(' ', "_")), 1),
                }
            }
        }
    }
    let _ = Unwound::Abort;
}
