//! C13 - cell and transaction queries are exact views of the index.
//! Stores are filled by the real filter_block; expected lists come from an independent decoding of
//! the raw key-value dump.

use std::collections::{BTreeMap, HashMap, HashSet};

use ckb_jsonrpc_types::JsonBytes;
use ckb_types::{
    packed::{self, Script},
    prelude::*,
};
use serde_json::{json, Value};

use crate::service::{BlockFilterRpc, BlockFilterRpcImpl, Order, SearchKey, SearchKeyFilter};
use crate::storage::{ScriptStatus, ScriptType, SetScriptsCommand, Storage, StorageWithChainData};

use super::super::chain::{lock_script, type_script, Chain, ChainParams, DiffMode, PowKind};
use super::super::client::{self, dump_db, kp};
use super::super::out::{hex, Out, RunCfg};
use super::super::refidx::{cell_from_json, num_json, tx_from_json, unhex_json, CellRec, TxRec, ST};
use super::super::rng::Rng;
use super::super::util::{guarded, Unwound};
use super::common::time_base;

#[derive(Clone, Debug)]
struct CellEntry {
    key: Vec<u8>,
    st: ST,
    /// code_hash | hash_type | args  (decoded from the key by its length)
    script_raw: Vec<u8>,
    rec: CellRec,
    lock_raw: Vec<u8>,
    type_raw: Option<Vec<u8>>,
    data_len: usize,
}

#[derive(Clone, Debug)]
struct TxEntry {
    key: Vec<u8>,
    st: ST,
    script_raw: Vec<u8>,
    rec: TxRec,
}

struct Decoded {
    cells: Vec<CellEntry>,
    txs: Vec<TxEntry>,
    tx_keys: HashSet<Vec<u8>>,
    tip_hash: String,
    tip_number: u64,
}

fn raw_of(s: &Script) -> Vec<u8> {
    let mut v = s.code_hash().as_slice().to_vec();
    v.extend_from_slice(s.hash_type().as_slice());
    v.extend_from_slice(&s.args().raw_data());
    v
}

fn be64(b: &[u8]) -> u64 {
    u64::from_be_bytes(b.try_into().unwrap())
}
fn be32(b: &[u8]) -> u32 {
    u32::from_be_bytes(b.try_into().unwrap())
}

/// independent decoding of the raw dump
fn decode(dump: &[(Vec<u8>, Vec<u8>)]) -> Decoded {
    let mut txmap: HashMap<Vec<u8>, packed::Transaction> = HashMap::new();
    for (k, v) in dump {
        if k[0] == kp::TX_HASH && k.len() == 33 {
            txmap.insert(k[1..].to_vec(), packed::Transaction::from_slice(&v[12..]).expect("tx"));
        }
    }
    let mut d = Decoded { cells: vec![], txs: vec![], tx_keys: HashSet::new(), tip_hash: String::new(), tip_number: 0 };
    for (k, v) in dump {
        match k[0] {
            kp::CELL_LOCK | kp::CELL_TYPE => {
                let n = k.len();
                let script_raw = k[1..n - 16].to_vec();
                let block = be64(&k[n - 16..n - 8]);
                let tx_index = be32(&k[n - 8..n - 4]);
                let out_index = be32(&k[n - 4..]);
                let tx = txmap.get(&v[..]).expect("cell entry refers to a stored tx");
                let output = tx.raw().outputs().get(out_index as usize).expect("output");
                let data = tx.raw().outputs_data().get(out_index as usize).expect("data").raw_data();
                let cap: u64 = output.capacity().unpack();
                d.cells.push(CellEntry {
                    key: k.clone(),
                    st: if k[0] == kp::CELL_LOCK { ST::Lock } else { ST::Type },
                    script_raw,
                    rec: CellRec {
                        tx_hash: hex(v),
                        index: out_index,
                        block,
                        tx_index,
                        capacity: cap,
                        lock: hex(output.lock().as_slice()),
                        type_: output.type_().to_opt().map(|t| hex(t.as_slice())).unwrap_or_default(),
                        data: hex(&data),
                    },
                    lock_raw: raw_of(&output.lock()),
                    type_raw: output.type_().to_opt().map(|t| raw_of(&t)),
                    data_len: data.len(),
                });
            }
            kp::TX_LOCK | kp::TX_TYPE => {
                let n = k.len();
                let script_raw = k[1..n - 17].to_vec();
                d.tx_keys.insert(k.clone());
                d.txs.push(TxEntry {
                    key: k.clone(),
                    st: if k[0] == kp::TX_LOCK { ST::Lock } else { ST::Type },
                    script_raw,
                    rec: TxRec {
                        block: be64(&k[n - 17..n - 9]),
                        tx_index: be32(&k[n - 9..n - 5]),
                        io_index: be32(&k[n - 5..n - 1]),
                        io_type: k[n - 1],
                        tx_hash: hex(v),
                    },
                });
            }
            kp::META if &k[1..] == b"LAST_STATE" => {
                let h = packed::Header::from_slice(&v[32..]).expect("header");
                d.tip_hash = hex(h.calc_header_hash().as_slice());
                d.tip_number = h.raw().number().unpack();
            }
            _ => {}
        }
    }
    d
}

#[derive(Clone, Debug, Default)]
struct Filt {
    script: Option<Script>,
    script_len: Option<[u64; 2]>,
    data_len: Option<[u64; 2]>,
    capacity: Option<[u64; 2]>,
    block: Option<[u64; 2]>,
}

impl Filt {
    fn to_rpc(&self) -> Option<SearchKeyFilter> {
        if self.script.is_none() && self.script_len.is_none() && self.data_len.is_none() && self.capacity.is_none() && self.block.is_none() {
            return None;
        }
        Some(SearchKeyFilter {
            script: self.script.clone().map(Into::into),
            script_len_range: self.script_len.map(|r| [r[0].into(), r[1].into()]),
            output_data_len_range: self.data_len.map(|r| [r[0].into(), r[1].into()]),
            output_capacity_range: self.capacity.map(|r| [r[0].into(), r[1].into()]),
            block_range: self.block.map(|r| [r[0].into(), r[1].into()]),
        })
    }
    fn kinds(&self) -> String {
        let mut v = vec![];
        if self.script.is_some() {
            v.push("script");
        }
        if self.script_len.is_some() {
            v.push("slen");
        }
        if self.data_len.is_some() {
            v.push("dlen");
        }
        if self.capacity.is_some() {
            v.push("cap");
        }
        if self.block.is_some() {
            v.push("block");
        }
        if v.is_empty() {
            "none".into()
        } else {
            v.join("+")
        }
    }
}

fn search_key(script: &Script, st: ST, f: &Filt, group: bool) -> SearchKey {
    search_key_wd(script, st, f, group, Some(true))
}

fn search_key_wd(script: &Script, st: ST, f: &Filt, group: bool, with_data: Option<bool>) -> SearchKey {
    SearchKey { script: script.clone().into(), script_type: st.rpc(), filter: f.to_rpc(), with_data, group_by_transaction: if group { Some(true) } else { None } }
}

/// does a decoded entry match the search key: same code hash and hash type, args start with the searched args
fn key_matches(entry_raw: &[u8], search_raw: &[u8]) -> bool {
    entry_raw.len() >= 33 && entry_raw.starts_with(search_raw)
}

fn cell_passes(c: &CellEntry, st: ST, f: &Filt) -> bool {
    if let Some(fs) = &f.script {
        let want = raw_of(fs);
        // the filter applies to the other script of the cell
        match st {
            ST::Lock => match &c.type_raw {
                Some(t) if t.starts_with(&want) => {}
                _ => return false,
            },
            ST::Type => {
                if !c.lock_raw.starts_with(&want) {
                    return false;
                }
            }
        }
    }
    if let Some([r0, r1]) = f.script_len {
        let len = match st {
            ST::Lock => c.type_raw.as_ref().map(|t| t.len()).unwrap_or(0),
            ST::Type => c.lock_raw.len(),
        } as u64;
        // inclusive on both ends (as ckb-indexer implements it)
        if len < r0 || len > r1 {
            return false;
        }
    }
    if let Some([r0, r1]) = f.data_len {
        let l = c.data_len as u64;
        if l < r0 || l >= r1 {
            return false;
        }
    }
    if let Some([r0, r1]) = f.capacity {
        if c.rec.capacity < r0 || c.rec.capacity >= r1 {
            return false;
        }
    }
    if let Some([r0, r1]) = f.block {
        if c.rec.block < r0 || c.rec.block >= r1 {
            return false;
        }
    }
    true
}

fn tx_passes(d: &Decoded, t: &TxEntry, st: ST, f: &Filt) -> bool {
    if let Some(fs) = &f.script {
        // the other script of the same cell must be the filter script: its history entry exists
        let mut k = vec![match st {
            ST::Lock => kp::TX_TYPE,
            ST::Type => kp::TX_LOCK,
        }];
        k.extend_from_slice(&raw_of(fs));
        k.extend_from_slice(&t.rec.block.to_be_bytes());
        k.extend_from_slice(&t.rec.tx_index.to_be_bytes());
        k.extend_from_slice(&t.rec.io_index.to_be_bytes());
        k.push(t.rec.io_type);
        if !d.tx_keys.contains(&k) {
            return false;
        }
    }
    if let Some([r0, r1]) = f.block {
        if t.rec.block < r0 || t.rec.block >= r1 {
            return false;
        }
    }
    true
}

fn walk_cells(rpc: &BlockFilterRpcImpl, sk: &dyn Fn() -> SearchKey, asc: bool, limit: u32) -> Result<(Vec<CellRec>, u64), String> {
    let mut out = vec![];
    let mut cursor: Option<JsonBytes> = None;
    let mut pages = 0;
    loop {
        let p = rpc
            .get_cells(sk(), if asc { Order::Asc } else { Order::Desc }, limit.into(), cursor.clone())
            .map_err(|e| format!("{:?}", e))?;
        pages += 1;
        if p.objects.is_empty() {
            break;
        }
        if p.objects.len() > limit as usize {
            return Err(format!("page of {} objects with limit {}", p.objects.len(), limit));
        }
        for c in p.objects.iter() {
            out.push(cell_from_json(&serde_json::to_value(c).unwrap()));
        }
        cursor = Some(p.last_cursor);
        if pages > 100_000 {
            return Err("paging does not terminate".into());
        }
    }
    Ok((out, pages))
}

#[derive(Clone, Debug, PartialEq, Eq)]
struct Group {
    tx_hash: String,
    block: u64,
    tx_index: u32,
    cells: Vec<(u8, u32)>,
}

fn walk_txs(rpc: &BlockFilterRpcImpl, sk: &dyn Fn() -> SearchKey, asc: bool, limit: u32, grouped: bool) -> Result<(Vec<TxRec>, Vec<Group>, u64), String> {
    let mut out = vec![];
    let mut groups = vec![];
    let mut cursor: Option<JsonBytes> = None;
    let mut pages = 0;
    loop {
        let p = rpc
            .get_transactions(sk(), if asc { Order::Asc } else { Order::Desc }, limit.into(), cursor.clone())
            .map_err(|e| format!("{:?}", e))?;
        pages += 1;
        if p.objects.is_empty() {
            break;
        }
        if p.objects.len() > limit as usize {
            return Err(format!("page of {} objects with limit {}", p.objects.len(), limit));
        }
        for c in p.objects.iter() {
            let v = serde_json::to_value(c).unwrap();
            if grouped {
                let cells: Vec<(u8, u32)> = v["cells"]
                    .as_array()
                    .unwrap()
                    .iter()
                    .map(|x| (if x[0].as_str() == Some("input") { 0 } else { 1 }, num_json(&x[1]) as u32))
                    .collect();
                groups.push(Group { tx_hash: hex(&unhex_json(&v["transaction"]["hash"])), block: num_json(&v["block_number"]), tx_index: num_json(&v["tx_index"]) as u32, cells });
            } else {
                out.push(tx_from_json(&v));
            }
        }
        cursor = Some(p.last_cursor);
        if pages > 100_000 {
            return Err("paging does not terminate".into());
        }
    }
    Ok((out, groups, pages))
}

fn group_consecutive(list: &[TxRec]) -> Vec<Group> {
    let mut g: Vec<Group> = vec![];
    for t in list {
        match g.last_mut() {
            Some(last) if last.tx_hash == t.tx_hash => last.cells.push((t.io_type, t.io_index)),
            _ => g.push(Group { tx_hash: t.tx_hash.clone(), block: t.block, tx_index: t.tx_index, cells: vec![(t.io_type, t.io_index)] }),
        }
    }
    g
}

fn build_store(rng: &mut Rng, seed: u64) -> (Storage, std::path::PathBuf, Chain, Vec<(Script, ST)>) {
    let (_now, base_ts) = time_base();
    let params = ChainParams {
        seed,
        pow: PowKind::Dummy,
        epoch_len: (10, 20),
        base_difficulty: ckb_types::U256::from(1000u64),
        diff_mode: DiffMode::Fixed,
        tx_density: *rng.pick(&[60, 90, 100]),
        n_locks: rng.range(3, 12) as usize,
        n_types: rng.range(1, 4) as usize,
        base_ts,
        always_success: false,
        secp: false,
    };
    let len = rng.range(20, 140);
    let chain = Chain::generate(params.clone(), len);
    let dir = client::fresh_dir();
    let storage = Storage::new(&dir);
    storage.init_genesis_block(chain.genesis().data());
    let mut scripts: Vec<(Script, ST)> = vec![];
    for i in 0..params.n_locks + 2 {
        if rng.chance(4, 5) {
            scripts.push((lock_script(i), ST::Lock));
        }
    }
    for i in 0..params.n_types {
        if rng.chance(4, 5) {
            scripts.push((type_script(i), ST::Type));
        }
    }
    let sts: Vec<ScriptStatus> = scripts
        .iter()
        .map(|(s, st)| ScriptStatus { script: s.clone(), script_type: if *st == ST::Lock { ScriptType::Lock } else { ScriptType::Type }, block_number: 0 })
        .collect();
    storage.update_filter_scripts(sts, SetScriptsCommand::All);
    for n in 1..=chain.tip() {
        storage.filter_block(chain.blocks[n as usize].data());
    }
    // a realistic tip
    let tip = chain.blocks[chain.tip() as usize].header();
    storage.update_last_state(&chain.td(chain.tip()), &tip.data(), &[]);
    (storage, dir, chain, scripts)
}

fn gen_search_script(rng: &mut Rng, scripts: &[(Script, ST)]) -> (Script, ST, &'static str) {
    let (s, st) = rng.pick(scripts).clone();
    match rng.below(6) {
        0 | 1 | 2 => (s, st, "exact"),
        3 => {
            // prefix search: drop trailing args bytes
            let args = s.args().raw_data();
            let keep = rng.below(args.len() as u64 + 1) as usize;
            (s.as_builder().args(args[..keep].to_vec().pack()).build(), st, "prefix")
        }
        4 => {
            // longer args (usually an empty result, or an alias of a shorter script)
            let mut args = s.args().raw_data().to_vec();
            args.push(*rng.pick(&[0x00u8, 0x00, 0xff, 0x01]));
            (s.as_builder().args(args.pack()).build(), st, "longer")
        }
        _ => {
            let other = if st == ST::Lock { ST::Type } else { ST::Lock };
            (s, other, "wrong-type")
        }
    }
}

fn gen_filter(rng: &mut Rng, d: &Decoded, scripts: &[(Script, ST)], st: ST, for_txs: bool) -> Filt {
    let mut f = Filt::default();
    let range = |rng: &mut Rng, max: u64| -> [u64; 2] {
        match rng.below(6) {
            0 => [0, 0],
            1 => {
                let a = rng.below(max + 1);
                [a, a]
            }
            2 => {
                let a = rng.below(max + 1);
                let b = rng.below(max + 1);
                [a.max(b), a.min(b)] // inverted (or equal)
            }
            3 => [0, u64::MAX],
            _ => {
                let a = rng.below(max + 1);
                [a, a + rng.below(max + 2)]
            }
        }
    };
    if rng.chance(1, 3) {
        let other: Vec<&(Script, ST)> = scripts.iter().filter(|(_, t)| *t != st).collect();
        if !other.is_empty() {
            let s = rng.pick(&other).0.clone();
            // prefix of the other script for cells (documented as prefix); exact for transactions
            if !for_txs && rng.chance(1, 2) {
                let args = s.args().raw_data();
                let keep = rng.below(args.len() as u64 + 1) as usize;
                f.script = Some(s.as_builder().args(args[..keep].to_vec().pack()).build());
            } else {
                f.script = Some(s);
            }
        }
    }
    if rng.chance(1, 3) {
        f.block = Some(range(rng, d.tip_number + 2));
    }
    if !for_txs {
        if rng.chance(1, 4) {
            f.script_len = Some(range(rng, 60));
        }
        if rng.chance(1, 4) {
            f.data_len = Some(range(rng, 16));
        }
        if rng.chance(1, 4) {
            let lo = 100_0000_0000u64;
            let r = range(rng, 40_000_000);
            f.capacity = Some([lo + r[0], if r[1] == u64::MAX { u64::MAX } else { lo + r[1] }]);
        }
    }
    f
}

fn viol(out: &Out, k: u64, rule: &str, tag: &str, q: &Value, extra: Value) {
    out.violation(rule, &format!("C13|{}", tag), json!({"query": q, "detail": extra}), k);
}

fn one_store(cfg: &RunCfg, out: &Out, k: u64, queries: u64) {
    let seed = cfg.scenario_seed(k);
    let mut rng = Rng::new(seed);
    let (storage, dir, _chain, scripts) = build_store(&mut rng, seed);
    let dump = dump_db(&storage);
    let d = decode(&dump);
    out.count("stores", 1);
    out.max("cells_in_store_max", d.cells.len() as u64);
    out.max("tx_entries_in_store_max", d.txs.len() as u64);
    let peers = std::sync::Arc::new(crate::protocols::Peers::new(1, 2000, storage.get_last_check_point()));
    let rpc = BlockFilterRpcImpl { swc: StorageWithChainData::new(storage.clone(), peers, Default::default()) };
    for qn in 0..queries {
        if out.time_up() {
            break;
        }
        let (script, st, kind) = gen_search_script(&mut rng, &scripts);
        let search_raw = raw_of(&script);
        if rng.chance(1, 40) {
            // degenerate requests (documented ckb-indexer behaviour): limit 0, search args longer than 65535 bytes, and the cell-only
            // filters (output data length / capacity range) on get_transactions are refused with an error - never answered with a
            // partial list, never a panic
            let none = Filt::default();
            let which = rng.below(4);
            let res = guarded(|| match which {
                0 => rpc.get_cells(search_key_wd(&script, st, &none, false, None), Order::Asc, 0u32.into(), None).map(|p| p.objects.len()).map_err(|e| e.message),
                1 => rpc.get_transactions(search_key(&script, st, &none, false), Order::Desc, 0u32.into(), None).map(|p| p.objects.len()).map_err(|e| e.message),
                2 => {
                    let big = script.clone().as_builder().args(vec![0u8; 65_536 + rng.below(3) as usize].pack()).build();
                    rpc.get_cells(search_key_wd(&big, st, &none, false, None), Order::Asc, 10u32.into(), None).map(|p| p.objects.len()).map_err(|e| e.message)
                }
                _ => {
                    let mut f = Filt::default();
                    if rng.chance(1, 2) {
                        f.data_len = Some([0, 1000]);
                    } else {
                        f.capacity = Some([0, u64::MAX]);
                    }
                    rpc.get_transactions(search_key(&script, st, &f, false), Order::Asc, 10u32.into(), None).map(|p| p.objects.len()).map_err(|e| e.message)
                }
            });
            out.eval(1);
            let name = ["cells-limit-0", "transactions-limit-0", "search-args-over-65535-bytes", "transactions-with-a-cell-only-filter"][which as usize];
            out.cell(&format!("degenerate-request|{}", name));
            match res {
                Ok(Err(_)) => {}
                Ok(Ok(n)) => viol(out, k, "C13.R7", &format!("degenerate-request-answered|{}", name), &json!({"store_seed": seed, "query": qn}), json!({"objects": n})),
                Err(Unwound::Panic(p)) => viol(out, k, "C13.R7", &format!("panic|{}", p.signature("C13", name)), &json!({"store_seed": seed, "query": qn}), json!({"panic": p.message, "at": p.location})),
                Err(_) => {}
            }
            continue;
        }
        let limit = *rng.pick(&[1u32, 2, 3, 5, 7, 50, 100_000]);
        let is_cells = rng.chance(1, 2);
        let f = gen_filter(&mut rng, &d, &scripts, st, !is_cells);
        // with_data: absent means true (README); false must return the same cells, only without their data
        let with_data: Option<bool> = *rng.pick(&[Some(true), Some(true), None, Some(false), Some(false)]);
        let wd = with_data.unwrap_or(true);
        let qdesc = json!({"store_seed": seed, "query": qn, "what": if is_cells { "cells" } else { "transactions" }, "script_type": format!("{:?}", st), "search_args": hex(&script.args().raw_data()),
            "code_hash": hex(&script.code_hash().as_slice()[..4]), "hash_type": hex(script.hash_type().as_slice()), "search_kind": kind, "limit": limit, "with_data": format!("{:?}", with_data), "filter": format!("{:?}", f).chars().take(300).collect::<String>()});
        let cell_key = |what: &str, order: &str| format!("{}|{}|{}|{}|{}{}", what, order, f.kinds(), if limit >= 50 { "one-page" } else { "paged" }, kind, if wd || what != "cells" { "" } else { "|no-data" });
        let kp_cell = if st == ST::Lock { kp::CELL_LOCK } else { kp::CELL_TYPE };
        let kp_tx = if st == ST::Lock { kp::TX_LOCK } else { kp::TX_TYPE };
        if is_cells {
            // expected: raw-key order over the entries of this key type whose key starts with the search prefix
            let mut under_prefix: Vec<&CellEntry> = d.cells.iter().filter(|c| c.key[0] == kp_cell && c.key[1..].starts_with(&search_raw)).collect();
            under_prefix.sort_by(|a, b| a.key.cmp(&b.key));
            let expected: Vec<&CellEntry> = under_prefix.iter().cloned().filter(|c| key_matches(&c.script_raw, &search_raw) && cell_passes(c, st, &f)).collect();
            let aliased: Vec<&CellEntry> = under_prefix.iter().cloned().filter(|c| !key_matches(&c.script_raw, &search_raw)).collect();
            let skf = || search_key_wd(&script, st, &f, false, with_data);
            let res = guarded(|| (walk_cells(&rpc, &skf, true, limit), walk_cells(&rpc, &skf, false, limit), rpc.get_cells_capacity(skf())));
            out.eval(3);
            let (asc, desc, cap) = match res {
                Ok(r) => r,
                Err(Unwound::Panic(p)) => {
                    viol(out, k, "C13.R1", &format!("panic|{}", p.signature("C13", "get_cells")), &qdesc, json!({"panic": p.message, "at": p.location}));
                    continue;
                }
                Err(_) => continue,
            };
            let (asc, desc) = match (asc, desc) {
                (Ok(a), Ok(b)) => (a.0, b.0),
                (a, b) => {
                    viol(out, k, "C13.R1", "rpc-error-or-paging", &qdesc, json!({"asc": a.err(), "desc": b.err()}));
                    continue;
                }
            };
            out.cell(&cell_key("cells", "asc"));
            out.cell(&cell_key("cells", "desc"));
            // without data the records are compared modulo the data field, and no data may be returned
            let norm = |c: &CellRec| if wd { c.clone() } else { CellRec { data: String::new(), ..c.clone() } };
            if !wd && asc.iter().chain(desc.iter()).any(|c| !c.data.is_empty()) {
                viol(out, k, "C13.R3", "cells-data-returned-although-with-data-is-false", &qdesc, json!({}));
            }
            let exp_recs: Vec<CellRec> = expected.iter().map(|c| norm(&c.rec)).collect();
            // R6: entries that do not match the search key (aliases of shorter-args scripts)
            let alias_owned: Vec<CellRec> = aliased.iter().map(|c| norm(&c.rec)).collect();
            let alias_recs: HashSet<&CellRec> = alias_owned.iter().collect();
            let got_alias = asc.iter().filter(|c| alias_recs.contains(c)).count();
            if got_alias > 0 {
                viol(out, k, "C13.R6", "entry-does-not-match-search-key|shorter-args-alias|cells", &qdesc, json!({"alias_entries_returned": got_alias, "example": format!("{:?}", asc.iter().find(|c| alias_recs.contains(c)))}));
            }
            let asc_clean: Vec<CellRec> = asc.iter().filter(|c| !alias_recs.contains(c)).cloned().collect();
            if asc_clean != exp_recs {
                let missing = exp_recs.iter().filter(|e| !asc_clean.contains(e)).count();
                let extra = asc_clean.iter().filter(|e| !exp_recs.contains(e)).count();
                let tag = if missing == 0 && extra == 0 { "cells-order-or-duplicates" } else if extra > 0 { "cells-entry-outside-filter-or-key" } else { "cells-entry-missing" };
                viol(out, k, "C13.R1", tag, &qdesc, json!({"expected": exp_recs.len(), "got": asc_clean.len(), "missing": missing, "extra": extra}));
            }
            let mut rev = desc.clone();
            rev.reverse();
            if rev != asc {
                viol(out, k, "C13.R2", "cells-desc-is-not-reverse-of-asc", &qdesc, json!({"asc": asc.len(), "desc": desc.len()}));
            }
            match cap {
                Ok(c) => {
                    let v = serde_json::to_value(&c).unwrap();
                    let sum: u64 = asc.iter().map(|c| c.capacity).sum();
                    if num_json(&v["capacity"]) != sum {
                        viol(out, k, "C13.R5", "capacity-differs-from-sum-of-cells", &qdesc, json!({"capacity": num_json(&v["capacity"]), "sum": sum}));
                    }
                    if hex(&unhex_json(&v["block_hash"])) != d.tip_hash || num_json(&v["block_number"]) != d.tip_number {
                        viol(out, k, "C13.R5", "capacity-tip-differs-from-stored-tip", &qdesc, json!({}));
                    }
                }
                Err(e) => viol(out, k, "C13.R5", "capacity-rpc-error", &qdesc, json!({"err": format!("{:?}", e)})),
            }
            out.sample(&format!("cells|{}|{}", kind, f.kinds()), 1, || json!({"query": qdesc, "expected": exp_recs.len(), "returned": asc.len(), "aliased_under_prefix": aliased.len()}));
        } else {
            let mut under_prefix: Vec<&TxEntry> = d.txs.iter().filter(|t| t.key[0] == kp_tx && t.key[1..].starts_with(&search_raw)).collect();
            under_prefix.sort_by(|a, b| a.key.cmp(&b.key));
            let expected: Vec<&TxEntry> = under_prefix.iter().cloned().filter(|t| key_matches(&t.script_raw, &search_raw) && tx_passes(&d, t, st, &f)).collect();
            let aliased: HashSet<&TxRec> = under_prefix.iter().filter(|t| !key_matches(&t.script_raw, &search_raw)).map(|t| &t.rec).collect();
            let skf = || search_key(&script, st, &f, false);
            let skg = || search_key(&script, st, &f, true);
            let res = guarded(|| (walk_txs(&rpc, &skf, true, limit, false), walk_txs(&rpc, &skf, false, limit, false), walk_txs(&rpc, &skg, true, limit, true), walk_txs(&rpc, &skg, true, 100_000, true)));
            out.eval(4);
            let (asc, desc, grouped, grouped_big) = match res {
                Ok(r) => r,
                Err(Unwound::Panic(p)) => {
                    viol(out, k, "C13.R1", &format!("panic|{}", p.signature("C13", "get_transactions")), &qdesc, json!({"panic": p.message, "at": p.location}));
                    continue;
                }
                Err(_) => continue,
            };
            let (asc, desc, grouped, grouped_big) = match (asc, desc, grouped, grouped_big) {
                (Ok(a), Ok(b), Ok(c), Ok(e)) => (a.0, b.0, c.1, e.1),
                (a, b, c, e) => {
                    viol(out, k, "C13.R1", "rpc-error-or-paging", &qdesc, json!({"asc": a.err(), "desc": b.err(), "grouped": c.err(), "grouped_big": e.err()}));
                    continue;
                }
            };
            out.cell(&cell_key("txs", "asc"));
            out.cell(&cell_key("txs", "desc"));
            out.cell(&cell_key("txs", "grouped"));
            let exp_recs: Vec<TxRec> = expected.iter().map(|t| t.rec.clone()).collect();
            let got_alias = asc.iter().filter(|t| aliased.contains(t)).count();
            if got_alias > 0 {
                viol(out, k, "C13.R6", "entry-does-not-match-search-key|shorter-args-alias|transactions", &qdesc, json!({"alias_entries_returned": got_alias}));
            }
            let asc_clean: Vec<TxRec> = asc.iter().filter(|t| !aliased.contains(t)).cloned().collect();
            if asc_clean != exp_recs {
                let missing = exp_recs.iter().filter(|e| !asc_clean.contains(e)).count();
                let extra = asc_clean.iter().filter(|e| !exp_recs.contains(e)).count();
                let tag = if missing == 0 && extra == 0 { "txs-order-or-duplicates" } else if extra > 0 { "txs-entry-outside-filter-or-key" } else { "txs-entry-missing" };
                viol(out, k, "C13.R1", tag, &qdesc, json!({"expected": exp_recs.len(), "got": asc_clean.len(), "missing": missing, "extra": extra}));
            }
            let mut rev = desc.clone();
            rev.reverse();
            if rev != asc {
                viol(out, k, "C13.R2", "txs-desc-is-not-reverse-of-asc", &qdesc, json!({"asc": asc.len(), "desc": desc.len()}));
            }
            let want_groups = group_consecutive(&asc);
            if grouped != want_groups {
                // is the only difference that a transaction was split where a page ended?
                let mut merged: Vec<Group> = vec![];
                for g in grouped.iter() {
                    match merged.last_mut() {
                        Some(last) if last.tx_hash == g.tx_hash => last.cells.extend(g.cells.iter().cloned()),
                        _ => merged.push(g.clone()),
                    }
                }
                let tag = if merged == want_groups {
                    if f.kinds() == "none" { "grouped-transaction-split-at-page-boundary|unfiltered" } else { "grouped-transaction-split-at-page-boundary|filtered" }
                } else {
                    "grouped-differs-from-grouping-the-ungrouped|paged"
                };
                viol(out, k, "C13.R4", tag, &qdesc, json!({"groups": grouped.len(), "expected_groups": want_groups.len(), "limit": limit}));
            }
            if grouped_big != want_groups {
                viol(out, k, "C13.R4", "grouped-differs-from-grouping-the-ungrouped|one-page", &qdesc, json!({"groups": grouped_big.len(), "expected_groups": want_groups.len()}));
            }
            out.sample(&format!("txs|{}|{}", kind, f.kinds()), 1, || json!({"query": qdesc, "expected": exp_recs.len(), "returned": asc.len(), "groups": want_groups.len()}));
        }
    }
    drop(rpc);
    drop(storage);
    let _ = std::fs::remove_dir_all(&dir);
}

pub fn run(cfg: &RunCfg, out: &Out) {
    let stores = (cfg.budget / 400).max(2);
    for k in 0..stores {
        if out.time_up() {
            break;
        }
        if let Some(only) = cfg.only_scenario {
            if k != only {
                continue;
            }
        }
        one_store(cfg, out, k, 400);
    }
}

#[allow(dead_code)]
fn unused(_: BTreeMap<u8, u8>) {}
