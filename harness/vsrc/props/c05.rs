//! C05 - honest peers are never rejected and the client converges to the heaviest tip.

use ckb_types::prelude::*;
use serde_json::json;

use super::super::chain::Chain;
use super::super::out::{Out, RunCfg};
use super::super::rng::Rng;
use super::super::world::{Hook, Outcome, Resp, World};
use super::common::*;

pub const R_CONVERGE: u64 = 60;

struct Mon<'a> {
    out: &'a Out,
    msgs: u64,
    /// start hash of the last proof request sent to each peer
    req_start: std::collections::HashMap<ckb_network::PeerIndex, ckb_types::packed::Byte32>,
}
impl<'a> Hook for Mon<'a> {
    fn on_sent(&mut self, _w: &mut World, sent: &super::super::net::Sent) {
        if super::super::net::P::of(sent.proto) == Some(super::super::net::P::Lc) {
            if let Ok(m) = ckb_types::packed::LightClientMessageReader::from_compatible_slice(&sent.data) {
                if let ckb_types::packed::LightClientMessageUnionReader::GetLastStateProof(r) = m.to_enum() {
                    self.req_start.insert(sent.peer, r.start_hash().to_entity());
                }
            }
        }
    }
    fn after_deliver(&mut self, _w: &mut World, _pi: usize, _m: &Resp, _o: &Outcome) {
        self.msgs += 1;
        self.out.eval(1);
    }
}

pub fn run(cfg: &RunCfg, out: &Out) {
    for k in 0..cfg.budget {
        if out.time_up() {
            out.note("time cap reached");
            break;
        }
        if let Some(only) = cfg.only_scenario {
            if k != only {
                continue;
            }
        }
        scenario(cfg.scenario_seed(k), k, out);
    }
}

fn heaviest_tips(w: &World) -> Vec<ckb_types::packed::Byte32> {
    let mut best = ckb_types::U256::zero();
    let mut tips = vec![];
    for p in w.peers.iter().filter(|p| p.connected) {
        let c = &w.chains[p.chain];
        let td = c.td(c.tip());
        if td > best {
            best = td;
            tips = vec![c.tip_hash()];
        } else if td == best && !tips.contains(&c.tip_hash()) {
            tips.push(c.tip_hash());
        }
    }
    tips
}

fn tip_ok(w: &World) -> bool {
    if w.dead {
        return false;
    }
    if heaviest_tips(w).contains(&w.tip_hash()) {
        return true;
    }
    // the client never goes back: a tip heavier than everything the connected peers announce stays
    let (td, _) = w.c().stored_tip();
    let best = w.peers.iter().filter(|p| p.connected).map(|p| w.chains[p.chain].td(w.chains[p.chain].tip())).max();
    best.map(|b| td > b).unwrap_or(true)
}

pub fn scenario(seed: u64, k: u64, out: &Out) {
    let mut rng = Rng::new(seed);
    let (now, base_ts) = time_base();
    let params = gen_params(&mut rng, seed, base_ts);
    let len = gen_len(&mut rng);
    let mut ccfg = gen_ccfg(&mut rng);
    // the chain root commitment starts at epoch E > 0 in a third of the histories: the headers up to the first block of
    // epoch E honestly carry no chain root (short epochs put the boundary among the first blocks, where the last-N
    // section, the samples and sometimes the tip itself lie)
    if rng.chance(1, 3) {
        ccfg.mmr_epoch = rng.range(1, 4);
    }
    let main = Chain::generate_with_mmr_epoch(params.clone(), len, ccfg.mmr_epoch);
    let mut w = World::new(main, ccfg.clone(), seed, now);
    w.timer_fast = rng.chance(3, 4);
    let with_scripts = rng.chance(1, 2);
    if with_scripts {
        let regs = pick_scripts(&mut rng, &w.chains[0], 3, len);
        set_scripts(&w, &regs, None);
    }
    let npeers = rng.range(1, 4) as usize;
    let mut net = HonestNet::new(0);
    for i in 0..npeers {
        let ci = if i == 0 || rng.chance(1, 2) {
            0
        } else {
            // lagging peer: a view of the main chain that is `lag` blocks behind
            let lag = rng.range(1, (len / 2).max(1)).min(len - 1);
            net.add_view(&mut w, lag)
        };
        w.add_peer(ci, true);
    }
    let desc = json!({"seed": seed, "scenario": k, "pow": format!("{:?}", params.pow), "len": len, "epoch_len": [params.epoch_len.0, params.epoch_len.1],
        "diff_mode": format!("{:?}", params.diff_mode), "last_n": ccfg.last_n, "peers": npeers, "scripts": with_scripts, "fast": w.timer_fast, "mmr_activated_epoch": ccfg.mmr_epoch});
    let mut mon = Mon { out, msgs: 0, req_start: Default::default() };
    let mut phases: Vec<String> = vec![];
    w.connect_all();
    let nphases = rng.range(1, 5);
    let mut phase = 0;
    let mut max_rounds = 0u64;
    loop {
        let bans0 = w.bans.len();
        let disc0 = w.disconnects.len();
        let r = w.run_until(&mut mon, R_CONVERGE, tip_ok);
        out.eval(1);
        let shape = format!(
            "len{}|n{}|peers{}|{}|{:?}|{:?}|mmr{}",
            bucket(len), ccfg.last_n, npeers, phases.last().cloned().unwrap_or_else(|| "init".into()), params.pow, params.diff_mode, if ccfg.mmr_epoch == 0 { "0" } else { ">0" }
        );
        out.cell(&shape);
        if w.bans.len() > bans0 {
            let (_, reason) = w.bans[bans0].clone();
            let code = reason.split(':').next().unwrap_or("").to_string();
            let mut forked = if phases.iter().any(|p| p == "fork") { "after-fork".to_string() } else { "no-fork".to_string() };
            if code.starts_with("InvalidTotalDifficulty") {
                // which header the client used as the start of the total-difficulty envelope
                // the start of the request this answer belongs to (the client takes the peer's previously proved header)
                let m = &w.chains[net.main];
                let banned_peer = w.bans[bans0].0;
                let on_main = match mon.req_start.get(&banned_peer) {
                    Some(h) => m.num_of(h).is_some(),
                    None => {
                        let tip = w.c().storage.get_tip_header().into_view();
                        tip.number() <= m.tip() && m.blocks[tip.number() as usize].hash() == tip.hash()
                    }
                };
                forked = format!("{}|{}", forked, if on_main { "start-on-peer-chain" } else { "start-on-abandoned-branch" });
            }
            out.violation("C05.R1", &format!("C05|ban|{}|{}", code, forked), json!({"scenario": desc, "phases": phases, "reason": reason, "trace": w.trace_vec()}), k);
            break;
        }
        if w.disconnects.len() > disc0 {
            let (_, reason) = w.disconnects[disc0].clone();
            out.violation("C05.R2", &format!("C05|disconnect|{}", reason), json!({"scenario": desc, "phases": phases}), k);
            break;
        }
        if let Some((ctx, p)) = w.panics.first() {
            let forked = if phases.iter().any(|p| p == "fork") { "after-fork" } else { "no-fork" };
            let multi = if w.peers.len() >= 2 { "multi-peer" } else { "single-peer" };
            out.violation("C05.R1", &format!("{}|{}|{}", p.signature("C05", ctx), forked, multi), json!({"scenario": desc, "phases": phases, "panic": p.message, "at": p.location, "bt": p.backtrace_head, "trace": w.trace_vec()}), k);
            break;
        }
        match r {
            Some(rounds) => {
                max_rounds = max_rounds.max(rounds);
                out.max("rounds_to_converge_max", rounds);
            }
            None => {
                let tip_n: u64 = w.c().storage.get_tip_header().raw().number().unpack();
                out.violation(
                    "C05.R3",
                    &format!("C05|no-convergence|{}", phases.last().cloned().unwrap_or_else(|| "init".into())),
                    json!({"scenario": desc, "phases": phases, "client_tip": tip_n, "peer_tips": w.peers.iter().map(|p| w.chains[p.chain].tip()).collect::<Vec<_>>()}),
                    k,
                );
                break;
            }
        }
        if phase >= nphases {
            break;
        }
        phase += 1;
        // next disturbance; every phase lets all chains grow by at least one block
        let kind = rng.below(6);
        let gmax = if rng.chance(1, 4) { 60 } else { 8 };
        let g = rng.range(1, gmax);
        match kind {
            0 | 1 => {
                phases.push(format!("grow"));
                net.grow(&mut w, g);
            }
            2 => {
                phases.push("restart".into());
                if let Err(p) = w.restart() {
                    out.violation("C05.R1", &p.signature("C05", "restart"), json!({"scenario": desc, "phases": phases, "panic": p.message}), k);
                    break;
                }
                net.grow_silent(&mut w, g);
                w.connect_all();
            }
            3 => {
                // shallow fork below last-N: the network moves to a heavier branch that shares a remembered header
                let stored = w.c().storage.get_last_n_headers();
                let tipn: u64 = w.c().storage.get_tip_header().raw().number().unpack();
                let main_ci = net.main;
                // fork point: one of the headers the client remembers, or (C05's own wording) any depth below last-N - whether
                // the client still remembers that many headers at this moment (after a restart, after short proofs) is its business
                let by_depth = rng.chance(1, 2);
                let cands: Vec<u64> = if by_depth {
                    let main_tip = w.chains[main_ci].tip();
                    (1..ccfg.last_n as u64).filter(|d| *d + 1 <= main_tip.saturating_sub(1)).map(|d| main_tip - d).filter(|n| *n >= 1 && *n + 1 < main_tip).collect()
                } else {
                    stored.iter().map(|(n, _)| *n).filter(|n| *n + 1 < w.chains[main_ci].tip() && *n >= 1).collect()
                };
                // the switch happens at a quiescent point: no request to the switching peers is outstanding
                // (the race "answer from the new branch to a request made on the old one" is exercised by C04)
                let quiet = w.run_until(&mut mon, 30, |w| w.converged_on(main_ci)).is_some();
                if quiet && ccfg.last_n >= 2 && !cands.is_empty() && w.chains[main_ci].tip() == tipn {
                    phases.push("fork".into());
                    if by_depth {
                        phases.push("fork-point-by-depth".into());
                    }
                    let at = *rng.pick(&cands);
                    let d = tipn - at;
                    // short (no samples needed) or long (reorg section + samples + last-N in one answer)
                    let long = rng.chance(1, 2);
                    let extra = if long { rng.range(ccfg.last_n as u64 + 2, 4 * ccfg.last_n as u64 + 25) } else { rng.range(1, 4) };
                    if long {
                        phases.push("long-branch".into());
                    }
                    net.fork(&mut w, at, d + extra, rng.next_u64() | 1);
                    net.grow(&mut w, 1);
                } else {
                    phases.push("grow".into());
                    net.grow(&mut w, g);
                }
            }
            4 => {
                phases.push("join".into());
                let pi = w.add_peer(net.main, true);
                net.grow(&mut w, g.min(3));
                w.connect(pi);
            }
            _ => {
                let connected: Vec<usize> = (0..w.peers.len()).filter(|i| w.peers[*i].connected).collect();
                if connected.len() >= 2 {
                    phases.push("leave".into());
                    let pi = *rng.pick(&connected);
                    w.disconnect(pi);
                } else {
                    phases.push("grow".into());
                }
                net.grow(&mut w, g.min(3));
            }
        }
    }
    // harness self-check: lagging views must be prefixes of the main chain
    for (ci, _) in net.views.iter() {
        let c = &w.chains[*ci];
        let m = &w.chains[net.main];
        if m.tip() < c.tip() || m.blocks[c.tip() as usize].hash() != c.tip_hash() {
            out.inconclusive("harness: lagging view diverged from the main chain");
        }
    }
    out.count("scenarios", 1);
    out.count("messages", mon.msgs);
    out.sample("scenario", 3, || json!({"scenario": desc, "phases": phases, "messages": mon.msgs, "max_rounds": max_rounds}));
    w.close();
}

pub fn bucket(n: u64) -> &'static str {
    match n {
        0..=5 => "0-5",
        6..=59 => "6-59",
        60..=249 => "60-249",
        250..=699 => "250-699",
        _ => "700+",
    }
}
