//! C16 - fetch statuses and get_transaction (transaction, block) answers are truthful.

use std::collections::{BTreeMap, HashMap, HashSet};

use ckb_jsonrpc_types::{HeaderView as JsonHeader};
use ckb_types::{packed::{self, Byte32}, prelude::*, H256};
use serde_json::{json, Value};

use crate::service::{ChainRpc, FetchStatus, Status as TxStatusKind, TransactionRpc, TransactionWithStatus};

use super::super::chain::Chain;
use super::super::net::{Sent, P};
use super::super::out::{hex, Out, RunCfg};
use super::super::rng::Rng;
use super::super::server::{self, LC};
use super::super::world::{Hook, Label, Outcome, Resp, World};
use super::common::*;

pub const R_FETCH: u64 = 45;

#[derive(Clone, Debug, PartialEq)]
enum St {
    Added(u64),
    Fetching(u64),
    Fetched,
    NotFound,
}

fn st_name(s: &St) -> &'static str {
    match s {
        St::Added(_) => "added",
        St::Fetching(_) => "fetching",
        St::Fetched => "fetched",
        St::NotFound => "not_found",
    }
}

fn conv<T>(f: &FetchStatus<T>) -> St {
    match f {
        FetchStatus::Added { timestamp } => St::Added((*timestamp).into()),
        FetchStatus::Fetching { first_sent } => St::Fetching((*first_sent).into()),
        FetchStatus::Fetched { .. } => St::Fetched,
        FetchStatus::NotFound => St::NotFound,
    }
}

fn edge_ok(a: &St, b: &St) -> bool {
    match (a, b) {
        (St::Added(x), St::Added(y)) => x == y,
        (St::Added(_), _) => true,
        (St::Fetching(x), St::Fetching(y)) => x == y,
        (St::Fetching(_), St::Added(_)) => false,
        (St::Fetching(_), _) => true,
        (St::Fetched, St::Fetched) => true,
        (St::Fetched, _) => false,
        (St::NotFound, _) => true,
    }
}

struct Track {
    is_tx: bool,
    hash: Byte32,
    exists: bool,
    history: Vec<(u64, St)>,
    first_pending_round: Option<u64>,
    /// the round of the user's first call for this hash (requests arrive staggered in some modes)
    start_round: u64,
}

struct Mon<'a> {
    out: &'a Out,
    /// hashes a proven honest peer reported missing in a valid answer to the client's request
    reported_missing: HashSet<Byte32>,
    /// adversarial behaviour of one peer for the next proof answers
    bad_peer: Option<usize>,
    bad_mode: u64,
    rng: Rng,
    invalid_answers: u64,
    /// mode "late-answer": every peer answers proof requests only after `late` rounds (well inside the message timeout)
    late: Option<u64>,
    held: Vec<(u64, usize, Vec<Resp>)>,
}

impl<'a> Hook for Mon<'a> {
    fn respond(&mut self, w: &mut World, pi: usize, sent: &Sent, honest: Vec<Resp>) -> Vec<Resp> {
        if sent.proto != LC.id() {
            return honest;
        }
        let kind = server::kind_of(P::Lc, &sent.data);
        if kind != "GetBlocksProof" && kind != "GetTransactionsProof" {
            return honest;
        }
        let chain = &w.chains[w.peers[pi].chain];
        // remember which hashes the peer's chain does not have (what an answer may report missing)
        if let Ok(m) = packed::LightClientMessageReader::from_compatible_slice(&sent.data) {
            match m.to_enum() {
                packed::LightClientMessageUnionReader::GetBlocksProof(r) => {
                    let p = server::blocks_proof_parts(chain, &r.to_entity());
                    if p.last.is_some() {
                        self.reported_missing.extend(p.missing.into_iter());
                    }
                }
                packed::LightClientMessageUnionReader::GetTransactionsProof(r) => {
                    let p = server::txs_proof_parts(chain, &r.to_entity());
                    if p.last.is_some() {
                        self.reported_missing.extend(p.missing.into_iter());
                    }
                }
                _ => {}
            }
        }
        if Some(pi) == self.bad_peer {
            match self.bad_mode {
                0 => {
                    // an invalid answer: flip a byte inside the honest one
                    self.invalid_answers += 1;
                    return honest
                        .into_iter()
                        .map(|r| {
                            let mut v = r.data.to_vec();
                            let i = v.len() / 2;
                            v[i] ^= 0x40;
                            Resp { proto: r.proto, data: v.into(), label: Label::Invalid("corrupted-proof-answer".into()) }
                        })
                        .collect();
                }
                1 => return vec![], // never answers: the request times out
                2 => {
                    // the peer's tip moved on: it answers with its new last state only (what a full node does when it
                    // cannot serve the requested last hash); the fetches of that request have to be asked again
                    let ci = w.peers[pi].chain;
                    w.grow_chain(ci, 1);
                    let c = &w.chains[ci];
                    let data = if kind == "GetBlocksProof" {
                        server::lc_msg(packed::SendBlocksProof::new_builder().last_header(c.vh(c.tip())).build())
                    } else {
                        server::lc_msg(packed::SendTransactionsProof::new_builder().last_header(c.vh(c.tip())).build())
                    };
                    self.invalid_answers += 1;
                    return vec![Resp { proto: P::Lc, data, label: Label::Unjudged }];
                }
                _ => {}
            }
        }
        if let Some(d) = self.late {
            let due = w.round_no + 1 + self.rng.range(1, d);
            self.held.push((due, pi, honest));
            return vec![];
        }
        honest
    }
    fn after_deliver(&mut self, _w: &mut World, _pi: usize, _m: &Resp, _o: &Outcome) {
        self.out.eval(1);
    }
}

pub fn run(cfg: &RunCfg, out: &Out) {
    for k in 0..cfg.budget {
        if out.time_up() {
            break;
        }
        if let Some(only) = cfg.only_scenario {
            if k != only {
                continue;
            }
        }
        if k % 4 == 3 {
            scenario_same_height(cfg.scenario_seed(k), k, out);
        } else {
            scenario(cfg.scenario_seed(k), k, out);
        }
    }
}

/// what get_transaction / fetch_transaction say about a transaction: (status, block hash)
fn tx_answers(w: &World, tx: &Byte32) -> Vec<(&'static str, Value)> {
    let h: H256 = tx.unpack();
    let mut v = vec![];
    if let Ok(r) = w.c().rpc_tx().get_transaction(h.clone()) {
        v.push(("get_transaction", serde_json::to_value(&r).unwrap()["tx_status"].clone()));
    }
    if let Ok(FetchStatus::Fetched { data }) = w.c().rpc_tx().fetch_transaction(h) {
        v.push(("fetch_transaction", serde_json::to_value(&data).unwrap()["tx_status"].clone()));
    }
    v
}

/// R4 across a fork switch: a transaction of branch A was fetched (committed in block A_n); the network switches to a
/// branch B that replaces height n, and the client stores B_n as well (fetch_header of B_n, fetch_transaction of a
/// transaction in B_n, or filter sync indexing B_n for a registered script). Whatever get_transaction /
/// fetch_transaction then answer for the first transaction: a `committed` answer must name a stored header whose block
/// really contains it.
fn scenario_same_height(seed: u64, k: u64, out: &Out) {
    let mut rng = Rng::new(seed);
    let (now, base_ts) = time_base();
    let mut params = gen_params(&mut rng, seed, base_ts);
    params.tx_density = 100;
    let len = rng.range(15, 50);
    let mut ccfg = gen_ccfg(&mut rng);
    ccfg.last_n = *rng.pick(&[5u64, 10, 100]);
    ccfg.cp_interval = 2000;
    let main = Chain::generate(params.clone(), len);
    let mut w = World::new(main, ccfg.clone(), seed, now);
    let mut net = HonestNet::new(0);
    w.add_peer(0, true);
    let how = *rng.pick(&["fetch_header", "fetch_transaction", "script-indexing"]);
    let desc = json!({"seed": seed, "scenario": k, "len": len, "mode": "same-height-after-fork", "second_block_stored_by": how, "last_n": ccfg.last_n});
    let mut mon = Mon { out, reported_missing: HashSet::new(), bad_peer: None, bad_mode: 9, rng: rng.fork(3), invalid_answers: 0, late: None, held: vec![] };
    w.connect_all();
    if w.run_until(&mut mon, 40, |w| w.tip_hash() == w.chains[0].tip_hash()).is_none() {
        out.count("setup_not_converged", 1);
        w.close();
        return;
    }
    // a transaction in one of the two highest blocks of branch A
    // (a transaction of the tip block itself cannot be proven: the chain root of the last header covers its ancestors only)
    let tip = w.chains[0].tip();
    let depth = rng.range(1, 2);
    let n = tip - depth;
    let (tx_a, block_a) = {
        let b = &w.chains[0].blocks[n as usize];
        let txs = b.transactions();
        (txs[rng.pick_idx(txs.len())].hash(), b.hash())
    };
    let h: H256 = tx_a.unpack();
    let mut fetched = false;
    for _ in 0..R_FETCH {
        if let Ok(FetchStatus::Fetched { .. }) = w.c().rpc_tx().fetch_transaction(h.clone()) {
            fetched = true;
            break;
        }
        w.round(&mut mon);
        if w.dead {
            break;
        }
    }
    if !fetched || w.dead {
        out.count("same_height_setup_not_fetched", 1);
        w.close();
        return;
    }
    let judge = |w: &World, stage: &str, violated: &mut bool| {
        for (rpc, st) in tx_answers(w, &tx_a) {
            out.eval(1);
            if st["status"].as_str() != Some("committed") {
                out.cell(&format!("same-height|{}|{}|{}|not-committed", how, stage, rpc));
                continue;
            }
            let bh = st["block_hash"].as_str().map(|x| x.trim_start_matches("0x").to_string()).unwrap_or_default();
            let truthful = bh == hex(block_a.as_slice());
            let stored = serde_json::from_value::<H256>(json!(format!("0x{}", bh))).ok().and_then(|hh| w.c().rpc_chain().get_header(hh).ok().flatten()).is_some();
            out.cell(&format!("same-height|{}|{}|{}|committed|truthful={}|stored={}", how, stage, rpc, truthful, stored));
            if (!truthful || !stored) && !*violated {
                *violated = true;
                out.violation("C16.R4", &format!("C16|committed-with-a-block-that-does-not-contain-the-transaction|{}|{}", how, rpc),
                    json!({"scenario": desc, "stage": stage, "rpc": rpc, "answer": st, "containing_block": hex(block_a.as_slice()), "height": n, "header_stored": stored,
                        "trace": w.trace_vec().into_iter().rev().take(12).collect::<Vec<_>>()}), k);
            }
        }
    };
    let mut violated = false;
    judge(&w, "before-fork", &mut violated);
    // the network switches to branch B forking below n (a fork the client can follow: within its remembered headers)
    let at = n - 1 - rng.range(0, 1);
    if how == "script-indexing" {
        // scripts are registered from the fork point on, so that filter sync downloads and indexes the blocks of branch B
        let regs: super::super::refidx::Registered = (0..w.chains[0].params.n_locks).map(|i| (super::super::chain::lock_script(i), super::super::refidx::ST::Lock, at)).collect();
        set_scripts(&w, &regs, None);
    }
    net.fork(&mut w, at, tip - at + 2, rng.next_u64() | 1);
    net.grow(&mut w, 1);
    let main = net.main;
    for _ in 0..60 {
        if w.dead || w.tip_hash() == w.chains[main].tip_hash() {
            break;
        }
        w.round(&mut mon);
    }
    if how == "script-indexing" {
        // let filter sync download and index the blocks of branch B (whether it gets all the way is C04's matter)
        for r in 0..40 {
            if w.dead || w.converged_on(main) {
                break;
            }
            if r % 15 == 14 {
                net.grow(&mut w, 1);
            }
            w.round(&mut mon);
        }
    }
    let main = net.main;
    if w.dead || Unpack::<u64>::unpack(&w.c().storage.get_tip_header().raw().number()) < n || w.chains[main].num_of(&w.tip_hash()).is_none() {
        out.count("same_height_fork_not_followed", 1);
        w.close();
        return;
    }
    judge(&w, "after-fork", &mut violated);
    // the block of branch B at the same height gets stored
    let b_n = w.chains[main].blocks[n as usize].clone();
    let second: Option<H256> = match how {
        "fetch_header" => Some(b_n.hash().unpack()),
        "fetch_transaction" => Some(b_n.transactions()[rng.pick_idx(b_n.transactions().len())].hash().unpack()),
        _ => None,
    };
    for r in 0..R_FETCH {
        let done = match (how, &second) {
            ("fetch_header", Some(hh)) => matches!(w.c().rpc_chain().fetch_header(hh.clone()), Ok(FetchStatus::Fetched { .. })),
            ("fetch_transaction", Some(hh)) => matches!(w.c().rpc_tx().fetch_transaction(hh.clone()), Ok(FetchStatus::Fetched { .. })),
            _ => r >= 3,
        };
        if done || w.dead {
            break;
        }
        if r % 15 == 14 {
            net.grow(&mut w, 1);
        }
        w.round(&mut mon);
    }
    if !w.dead {
        judge(&w, "after-second-block-at-the-height", &mut violated);
    }
    out.count("scenarios", 1);
    out.count("same_height_scenarios", 1);
    out.sample("scenario|same-height-after-fork", 1, || desc.clone());
    w.close();
}

fn poll(w: &World, t: &mut Track, round: u64) -> Option<(St, Option<Value>)> {
    let h: H256 = t.hash.unpack();
    if t.is_tx {
        let r = w.c().rpc_tx().fetch_transaction(h).ok()?;
        let extra = if let FetchStatus::Fetched { data } = &r { Some(serde_json::to_value(data).unwrap()) } else { None };
        let s = conv(&r);
        t.history.push((round, s.clone()));
        Some((s, extra))
    } else {
        let r = w.c().rpc_chain().fetch_header(h).ok()?;
        let s = conv(&r);
        t.history.push((round, s.clone()));
        Some((s, None))
    }
}

fn scenario(seed: u64, k: u64, out: &Out) {
    let mut rng = Rng::new(seed);
    let (now, base_ts) = time_base();
    let mut params = gen_params(&mut rng, seed, base_ts);
    params.tx_density = 80;
    let len = rng.range(15, 90);
    let mut ccfg = gen_ccfg(&mut rng);
    ccfg.last_n = *rng.pick(&[3u64, 5, 10, 100]);
    let main = Chain::generate(params.clone(), len);
    let mut w = World::new(main, ccfg.clone(), seed, now);
    w.timer_fast = rng.chance(1, 2);
    let net = HonestNet::new(0);
    let npeers = rng.range(1, 3) as usize;
    for _ in 0..npeers {
        w.add_peer(0, true);
    }
    let with_scripts = rng.chance(1, 2);
    if with_scripts {
        let regs = pick_scripts(&mut rng, &w.chains[0], 2, len);
        set_scripts(&w, &regs, None);
    }
    let mode = *rng.pick(&["honest", "honest", "invalid-answer", "mute-then-timeout", "disconnect-before-answer", "new-tip-only-answer", "late-answer", "late-answer", "session-closing", "expire-then-leave"]);
    // expire-then-leave: the serving peer never answers and leaves by itself AFTER its request is older than the message timeout but (often)
    // BEFORE the next refresh tick has noticed it
    let leave_at = rng.range(60, 68);
    // session-closing (fault injection at the network boundary): the session of the serving peer starts closing - every send to it fails
    // with an error and is lost - and the disconnected callback arrives 1..4 rounds later; the fetches it was (or seemed to be) given
    // must become eligible for another peer / a new session
    let closing_at = rng.range(0, 2);
    let closing_len = rng.range(1, 4);
    let desc = json!({"seed": seed, "scenario": k, "len": len, "peers": npeers, "mode": mode, "scripts": with_scripts, "last_n": ccfg.last_n, "fast_timers": w.timer_fast});
    let mut mon = Mon { out, reported_missing: HashSet::new(), bad_peer: None, bad_mode: 9, rng: rng.fork(3), invalid_answers: 0, late: None, held: vec![] };
    w.connect_all();
    if w.run_until(&mut mon, 40, |w| w.tip_hash() == w.chains[0].tip_hash()).is_none() {
        out.count("setup_not_converged", 1);
        w.close();
        return;
    }
    // requests: existing / missing headers and transactions
    let mut tracks: Vec<Track> = vec![];
    let chain = w.chains[0].clone();
    for _ in 0..rng.range(1, 5) {
        let is_tx = rng.chance(1, 2);
        let exists = rng.chance(3, 4);
        let n = rng.range(1, chain.tip().saturating_sub(1).max(1));
        let hash = if !exists {
            Byte32::new(super::super::mutate::rand32(&mut rng))
        } else if is_tx {
            let b = &chain.blocks[n as usize];
            b.transactions()[rng.pick_idx(b.transactions().len())].hash()
        } else {
            chain.blocks[n as usize].hash()
        };
        if tracks.iter().any(|t| t.hash == hash) {
            continue;
        }
        // in the late-answer mode further requests arrive while earlier proof requests are still unanswered
        let start_round = if mode == "late-answer" && !tracks.is_empty() { rng.range(1, 9) } else { 0 };
        tracks.push(Track { is_tx, hash, exists, history: vec![], first_pending_round: None, start_round });
    }
    match mode {
        "invalid-answer" => {
            mon.bad_peer = Some(0);
            mon.bad_mode = 0;
        }
        "mute-then-timeout" | "expire-then-leave" => {
            mon.bad_peer = Some(0);
            mon.bad_mode = 1;
        }
        "new-tip-only-answer" => {
            mon.bad_peer = Some(0);
            mon.bad_mode = 2;
        }
        "late-answer" => mon.late = Some(rng.range(2, 7)),
        _ => {}
    }
    let mut violated = false;
    let total_rounds = if mode == "mute-then-timeout" || mode == "expire-then-leave" { 110 } else { R_FETCH + 15 };
    for round in 0..total_rounds {
        if w.dead {
            break;
        }
        // keep the chain moving so that nobody is dropped for an unchanged last state
        if round % 15 == 14 {
            net.grow(&mut w, 1);
        }
        if mode == "disconnect-before-answer" && round == 1 && w.peers.len() >= 2 {
            w.disconnect(0);
        }
        if mode == "session-closing" {
            if round == closing_at {
                w.start_closing(0);
            }
            if round == closing_at + closing_len {
                w.disconnect(0);
                out.count("sends_that_failed_on_a_closing_session", w.c().log.failed_sends());
            }
        }
        // after the bad behaviour the peer is honest again (it may reconnect)
        if round == 3 && (mode == "invalid-answer" || mode == "new-tip-only-answer") {
            mon.bad_peer = None;
        }
        // the silent peer is dropped after the message timeout; its next session behaves
        if mode == "expire-then-leave" && round == leave_at {
            if w.peers[0].connected {
                w.disconnect(0);
                out.count("expired_request_peer_left_before_the_refresh_tick_noticed", 1);
            }
            mon.bad_peer = None;
        }
        if round == 5 && mode == "mute-then-timeout" {
            mon.bad_peer = None;
        }
        if round % 7 == 6 {
            w.connect_all();
        }
        // late answers whose time has come
        if !mon.held.is_empty() {
            let now_r = w.round_no;
            let (due, rest): (Vec<_>, Vec<_>) = std::mem::take(&mut mon.held).into_iter().partition(|(r, _, _)| *r <= now_r + 1);
            mon.held = rest;
            for (_, pi, resps) in due {
                if pi < w.peers.len() && w.peers[pi].connected {
                    w.peers[pi].inbox.extend(resps);
                }
            }
        }
        // the slow peers become prompt again, so that bounded progress is judged against a responsive network
        if mode == "late-answer" && round == 25 {
            mon.late = None;
        }
        // poll statuses (every call is also the user's retry after not_found)
        for ti in 0..tracks.len() {
            if round < tracks[ti].start_round {
                continue;
            }
            if round % 2 == 1 && rng.chance(1, 2) {
                continue;
            }
            let (s, extra) = match poll(&w, &mut tracks[ti], round) {
                Some(x) => x,
                None => continue,
            };
            out.eval(1);
            let t = &tracks[ti];
            let hl = t.history.len();
            if hl >= 2 {
                let (a, b) = (&t.history[hl - 2].1, &t.history[hl - 1].1);
                out.cell(&format!("edge|{}|{}->{}|{}", if t.is_tx { "tx" } else { "header" }, st_name(a), st_name(b), mode));
                if !edge_ok(a, b) && !violated {
                    violated = true;
                    out.violation("C16.R1", &format!("C16|illegal-status-edge|{}|{}->{}", if t.is_tx { "tx" } else { "header" }, st_name(a), st_name(b)),
                        json!({"scenario": desc, "history": t.history.iter().map(|(r, s)| format!("{}:{:?}", r, s)).collect::<Vec<_>>(), "trace": w.trace_vec().into_iter().rev().take(14).collect::<Vec<_>>()}), k);
                }
            }
            if s == St::NotFound && t.exists && !mon.reported_missing.contains(&t.hash) && !violated {
                violated = true;
                out.violation("C16.R2", &format!("C16|not_found-without-missing-report|{}", if t.is_tx { "tx" } else { "header" }),
                    json!({"scenario": desc, "history": t.history.iter().map(|(r, s)| format!("{}:{:?}", r, s)).collect::<Vec<_>>()}), k);
            }
            if s == St::NotFound && !t.exists && !mon.reported_missing.contains(&t.hash) && !violated {
                violated = true;
                out.violation("C16.R2", "C16|not_found-before-any-peer-answered", json!({"scenario": desc}), k);
            }
            if let (St::Fetched, Some(v)) = (&s, &extra) {
                // R4: committed with block hash H: header stored, block H contains the transaction
                let bh = v["tx_status"]["block_hash"].as_str().map(|x| x.trim_start_matches("0x").to_string());
                if v["tx_status"]["status"].as_str() == Some("committed") {
                    out.eval(1);
                    let ok = match &bh {
                        Some(bh) => {
                            let in_chain = w.chains.iter().any(|c| c.blocks.iter().any(|b| hex(b.hash().as_slice()) == *bh && b.transactions().iter().any(|tx| tx.hash() == t.hash)));
                            let hdr: H256 = serde_json::from_value(json!(format!("0x{}", bh))).unwrap();
                            let stored = w.c().rpc_chain().get_header(hdr).ok().flatten().is_some();
                            in_chain && stored
                        }
                        None => false,
                    };
                    out.cell(&format!("committed-pairing|{}", ok));
                    if !ok && !violated {
                        violated = true;
                        out.violation("C16.R4", "C16|committed-with-wrong-or-unstored-block", json!({"scenario": desc, "answer": v["tx_status"]}), k);
                    }
                }
            }
            // R3 bookkeeping
            let t = &mut tracks[ti];
            match s {
                St::Added(_) | St::Fetching(_) => {
                    if t.first_pending_round.is_none() {
                        t.first_pending_round = Some(round);
                    }
                }
                _ => t.first_pending_round = None,
            }
        }
        w.round(&mut mon);
    }
    // R3: bounded progress for hashes an honest proven peer has
    if !w.dead && !violated {
        let honest_proven = w.c().peers.get_all_prove_states().len();
        for t in tracks.iter() {
            out.eval(1);
            let last = t.history.last().map(|(_, s)| s.clone());
            let stuck = matches!(last, Some(St::Added(_)) | Some(St::Fetching(_)));
            out.cell(&format!("final|{}|{}|{}|{}", if t.is_tx { "tx" } else { "header" }, if t.exists { "exists" } else { "missing" }, last.as_ref().map(st_name).unwrap_or("never-polled"), mode));
            if stuck && honest_proven > 0 {
                let since = t.first_pending_round.unwrap_or(0);
                if total_rounds - since >= R_FETCH {
                    out.violation("C16.R3", &format!("C16|fetch-stuck|{}|{}|{}", if t.is_tx { "tx" } else { "header" }, last.as_ref().map(st_name).unwrap_or(""), mode),
                        json!({"scenario": desc, "exists_on_chain": t.exists, "history_tail": t.history.iter().rev().take(8).map(|(r, s)| format!("{}:{:?}", r, s)).collect::<Vec<_>>(), "proven_peers": honest_proven,
                            "trace": w.trace_vec().into_iter().rev().take(14).collect::<Vec<_>>()}), k);
                    break;
                }
            }
        }
    }
    out.count("scenarios", 1);
    out.sample(&format!("scenario|{}", mode), 1, || json!({"scenario": desc, "tracks": tracks.iter().map(|t| json!({"tx": t.is_tx, "exists": t.exists, "statuses": t.history.iter().map(|(r, s)| format!("{}:{}", r, st_name(s))).collect::<Vec<_>>()})).collect::<Vec<_>>()}));
    let _: Option<(JsonHeader, TransactionWithStatus, TxStatusKind, BTreeMap<u8, u8>, HashMap<u8, u8>, Chain)> = None;
    w.close();
}
