//! C10 - no message from a peer can terminate the client.
//! Seeded, state-aware grammar + mutation fuzzing at the `received` boundary; oracle = catch_unwind
//! (overflow checks on, debug assertions off) + process exit status (driver).

use ckb_network::bytes::Bytes as P2pBytes;
use ckb_types::{
    core::{EpochNumberWithFraction, ExtraHashView, HeaderView},
    packed::{self, Byte32},
    prelude::*,
    U256,
};
use serde_json::json;

use super::super::chain::{mine_block, Chain, PowKind};
use super::super::mutate::{self, rand32};
use super::super::net::{Sent, P};
use super::super::out::{hex_short, Out, RunCfg};
use super::super::rng::Rng;
use super::super::server::{self, FILTER, LC, SYNC};
use super::super::util::LONG_FORK_PANIC;
use super::super::world::{Hook, Label, Outcome, Resp, World};
use super::c01::state_name;
use super::common::*;

fn b64(rng: &mut Rng, near: u64) -> u64 {
    match rng.below(12) {
        0 => 0,
        1 => 1,
        2 => 2,
        3 => u32::MAX as u64,
        4 => 1 << 32,
        5 => 1 << 63,
        6 => u64::MAX,
        7 => u64::MAX - 1,
        8 => near.wrapping_add(1),
        9 => near.wrapping_sub(1),
        10 => near,
        _ => rng.next_u64(),
    }
}

fn b256(rng: &mut Rng) -> U256 {
    match rng.below(8) {
        0 => U256::zero(),
        1 => U256::one(),
        2 => U256::max_value(),
        3 => U256::one() << 255usize,
        4 => U256::one() << 64usize,
        5 => U256::max_value() - 1u64,
        6 => U256::from(rng.next_u64()),
        _ => U256::one() << (rng.below(256) as usize),
    }
}

fn b32(rng: &mut Rng) -> u32 {
    match rng.below(6) {
        0 => 0,
        1 => u32::MAX,
        2 => 0x2100_ffff,
        3 => 0x0100_0001,
        4 => 0x2000_0001,
        _ => rng.next_u64() as u32,
    }
}

fn boundary_digest(rng: &mut Rng, d: &packed::HeaderDigest) -> packed::HeaderDigest {
    let mut b = d.clone().as_builder();
    for _ in 0..rng.range(1, 3) {
        b = match rng.below(9) {
            0 => b.total_difficulty(b256(rng).pack()),
            1 => b.start_number(b64(rng, 0).pack()),
            2 => b.end_number(b64(rng, d.end_number().unpack()).pack()),
            3 => b.start_epoch(b64(rng, 0).pack()),
            4 => b.end_epoch(b64(rng, 0).pack()),
            5 => b.start_timestamp(b64(rng, 0).pack()),
            6 => b.end_timestamp(b64(rng, 0).pack()),
            7 => b.start_compact_target(b32(rng).pack()),
            _ => b.end_compact_target(b32(rng).pack()),
        };
    }
    b.build()
}

/// Rebuild a verifiable header so that it still passes the cheap gates (extension commits to the
/// chain root, extra hash matches, nonce solves PoW) although numbers are extreme.
fn recommit(chain: &Chain, hv: &HeaderView, uncles_hash: Byte32, root: packed::HeaderDigest, keep_ext_tail: Option<packed::Bytes>, salt: u64) -> packed::VerifiableHeader {
    let mut ext = root.calc_mmr_hash().as_bytes().to_vec();
    if let Some(t) = keep_ext_tail {
        let raw = t.raw_data();
        if raw.len() > 32 {
            ext.extend_from_slice(&raw[32..]);
        }
    }
    let ext: packed::Bytes = ext.pack();
    let extra = ExtraHashView::new(uncles_hash.clone(), Some(ext.calc_raw_data_hash())).extra_hash();
    let h = hv.as_advanced_builder().extra_hash(extra).build();
    // mine through a throw-away block wrapper
    let b = ckb_types::core::BlockBuilder::default().header(h).build_unchecked();
    let b = if chain.params.pow == PowKind::Eaglesong && b.header().difficulty() <= U256::from(4096u64) && !b.header().difficulty().is_zero() {
        mine_block(chain.params.pow, b, salt)
    } else {
        b
    };
    packed::VerifiableHeader::new_builder()
        .header(b.header().data())
        .uncles_hash(uncles_hash)
        .extension(Pack::pack(&Some(ext)))
        .parent_chain_root(root)
        .build()
}

fn boundary_vh(rng: &mut Rng, chain: &Chain, vh: &packed::VerifiableHeader) -> (packed::VerifiableHeader, String) {
    let hv = vh.header().into_view();
    match rng.below(5) {
        0 => {
            // extreme chain root, consistently committed and mined: reaches the arithmetic behind the gates
            let root = boundary_digest(rng, &vh.parent_chain_root());
            (recommit(chain, &hv, vh.uncles_hash(), root, vh.extension().to_opt(), rng.next_u64()), "vh.root-extreme+recommitted".into())
        }
        1 => {
            let root = boundary_digest(rng, &vh.parent_chain_root());
            (vh.clone().as_builder().parent_chain_root(root).build(), "vh.root-extreme".into())
        }
        2 => {
            // extreme raw header numbers, re-committed and mined when cheap
            let raw = hv.data().raw();
            let raw = match rng.below(4) {
                0 => raw.as_builder().number(b64(rng, hv.number()).pack()).build(),
                1 => raw.as_builder().epoch(b64(rng, hv.epoch().full_value()).pack()).build(),
                2 => raw.as_builder().timestamp(b64(rng, hv.timestamp()).pack()).build(),
                _ => raw.as_builder().compact_target(b32(rng).pack()).build(),
            };
            let h2 = hv.data().as_builder().raw(raw).build().into_view();
            (recommit(chain, &h2, vh.uncles_hash(), vh.parent_chain_root(), vh.extension().to_opt(), rng.next_u64()), "vh.header-extreme+recommitted".into())
        }
        3 => {
            let ext: Option<packed::Bytes> = match rng.below(4) {
                0 => None,
                1 => Some(Vec::<u8>::new().pack()),
                2 => Some(rng.bytes(31).pack()),
                _ => Some(rng.bytes(96).pack()),
            };
            (vh.clone().as_builder().extension(Pack::pack(&ext)).build(), "vh.extension-shape".into())
        }
        _ => {
            let e = EpochNumberWithFraction::new_unchecked(rng.below(1 << 24), rng.below(1 << 16), rng.below(3));
            let raw = hv.data().raw().as_builder().epoch(e.full_value().pack()).build();
            let h2 = hv.data().as_builder().raw(raw).build().into_view();
            (recommit(chain, &h2, vh.uncles_hash(), vh.parent_chain_root(), vh.extension().to_opt(), rng.next_u64()), "vh.epoch-malformed+recommitted".into())
        }
    }
}

/// append extra (v1-style) fields with garbage content to a molecule table
fn with_extra_fields(table: &[u8], rng: &mut Rng) -> Vec<u8> {
    // table: total_size(4) | offsets(4*n) | fields
    if table.len() < 8 {
        return table.to_vec();
    }
    let first_off = u32::from_le_bytes(table[4..8].try_into().unwrap()) as usize;
    if first_off < 8 || first_off > table.len() || first_off % 4 != 0 {
        return table.to_vec();
    }
    let n = first_off / 4 - 1;
    let extra = rng.range(1, 3) as usize;
    let mut fields: Vec<Vec<u8>> = vec![];
    let mut offs: Vec<usize> = (0..n).map(|i| u32::from_le_bytes(table[4 + 4 * i..8 + 4 * i].try_into().unwrap()) as usize).collect();
    offs.push(table.len());
    for i in 0..n {
        if offs[i] > offs[i + 1] || offs[i + 1] > table.len() {
            return table.to_vec();
        }
        fields.push(table[offs[i]..offs[i + 1]].to_vec());
    }
    for _ in 0..extra {
        let l = *rng.pick(&[0usize, 1, 3, 4, 5, 8, 36]);
        let mut f = rng.bytes(l);
        if l >= 4 && rng.chance(1, 2) {
            // looks like a vector header with a huge size / count
            f[..4].copy_from_slice(&(*rng.pick(&[0u32, 4, l as u32, u32::MAX, 1 << 31])).to_le_bytes());
        }
        fields.push(f);
    }
    let header = 4 + 4 * fields.len();
    let total: usize = header + fields.iter().map(|f| f.len()).sum::<usize>();
    let mut out = (total as u32).to_le_bytes().to_vec();
    let mut off = header;
    for f in fields.iter() {
        out.extend_from_slice(&(off as u32).to_le_bytes());
        off += f.len();
    }
    for f in fields {
        out.extend_from_slice(&f);
    }
    out
}

fn lc_union_body(data: &[u8]) -> (u32, &[u8]) {
    (u32::from_le_bytes(data[..4].try_into().unwrap()), &data[4..])
}

/// boundary mutation of an honest answer (keeps the message deep in the accept path)
fn boundary_mutate(rng: &mut Rng, chain: &Chain, proto: P, data: &P2pBytes) -> Option<(P2pBytes, String)> {
    match proto {
        P::Lc => {
            let m = packed::LightClientMessageReader::from_compatible_slice(data).ok()?;
            match m.to_enum() {
                packed::LightClientMessageUnionReader::SendLastState(r) => {
                    let (vh, op) = boundary_vh(rng, chain, &r.last_header().to_entity());
                    Some((server::lc_msg(packed::SendLastState::new_builder().last_header(vh).build()), format!("SendLastState|{}", op)))
                }
                packed::LightClientMessageUnionReader::SendLastStateProof(r) => {
                    let e = r.to_entity();
                    let headers: Vec<packed::VerifiableHeader> = e.headers().into_iter().collect();
                    match rng.below(7) {
                        6 if !headers.is_empty() => {
                            // a reorg-looking section in front: k genuine headers right below the first one (k is a guess of the
                            // client's last-N value), the first of them with an extreme total difficulty in its chain root
                            let first: u64 = headers[0].header().raw().number().unpack();
                            let k = *rng.pick(&[1u64, 2, 3, 5, 10, 25, 100]);
                            if first <= k || first > chain.tip() {
                                return None;
                            }
                            let mut pre: Vec<packed::VerifiableHeader> = ((first - k)..first).map(|n| chain.vh(n)).collect();
                            let root = pre[0].parent_chain_root().as_builder().total_difficulty(b256(rng).pack()).build();
                            pre[0] = pre[0].clone().as_builder().parent_chain_root(root).build();
                            pre.extend(headers.iter().cloned());
                            Some((server::lc_msg(e.as_builder().headers(packed::VerifiableHeaderVec::new_builder().set(pre).build()).build()), format!("SendLastStateProof|reorg-section-prepended-k{}|first-td-extreme", k)))
                        }
                        0 if !headers.is_empty() => {
                            let i = rng.pick_idx(headers.len());
                            let (vh, op) = boundary_vh(rng, chain, &headers[i]);
                            let mut hs = headers.clone();
                            hs[i] = vh;
                            Some((server::lc_msg(e.as_builder().headers(packed::VerifiableHeaderVec::new_builder().set(hs).build()).build()), format!("SendLastStateProof|headers[{}]|{}", if i == 0 { "first" } else { "other" }, op)))
                        }
                        1 => {
                            // last header keeps header / uncles / extension / total difficulty (is_same_as) but other root fields go extreme
                            let lh = e.last_header();
                            let root = lh.parent_chain_root();
                            let root2 = match rng.below(3) {
                                0 => root.as_builder().end_number(b64(rng, 0).pack()).build(),
                                1 => root.as_builder().start_number(b64(rng, 0).pack()).build(),
                                _ => root.as_builder().end_epoch(b64(rng, 0).pack()).build(),
                            };
                            Some((server::lc_msg(e.clone().as_builder().last_header(lh.as_builder().parent_chain_root(root2).build()).build()), "SendLastStateProof|last_header.root-extreme".into()))
                        }
                        2 => {
                            let pf: Vec<packed::HeaderDigest> = e.proof().into_iter().collect();
                            if pf.is_empty() {
                                return None;
                            }
                            let i = rng.pick_idx(pf.len());
                            let mut p2 = pf.clone();
                            p2[i] = boundary_digest(rng, &pf[i]);
                            Some((server::lc_msg(e.as_builder().proof(packed::HeaderDigestVec::new_builder().set(p2).build()).build()), "SendLastStateProof|proof-item-extreme".into()))
                        }
                        3 => Some((server::lc_msg(e.as_builder().headers(Default::default()).build()), "SendLastStateProof|no-headers".into())),
                        4 if headers.len() >= 2 => {
                            // reorg-looking prefix with extreme difficulties
                            let mut hs = headers.clone();
                            let root = boundary_digest(rng, &hs[0].parent_chain_root());
                            let hv = hs[0].header().into_view();
                            hs[0] = recommit(chain, &hv, hs[0].uncles_hash(), root, hs[0].extension().to_opt(), 3);
                            Some((server::lc_msg(e.as_builder().headers(packed::VerifiableHeaderVec::new_builder().set(hs).build()).build()), "SendLastStateProof|first-header-root-extreme+recommitted".into()))
                        }
                        _ => {
                            let body = with_extra_fields(lc_union_body(data).1, rng);
                            Some((server::lc_raw_union(packed::SendLastStateProof::default().into(), &body), "SendLastStateProof|extra-fields".into()))
                        }
                    }
                }
                packed::LightClientMessageUnionReader::SendBlocksProof(_) => {
                    let body = lc_union_body(data).1;
                    match rng.below(3) {
                        0 => Some((server::lc_raw_union(packed::SendBlocksProof::default().into(), &with_extra_fields(&strip_to_fields(body, 4), rng)), "SendBlocksProof|garbage-v1-fields".into())),
                        1 => Some((server::lc_raw_union(packed::SendBlocksProof::default().into(), &with_extra_fields(body, rng)), "SendBlocksProof|surplus-fields".into())),
                        _ => {
                            let e = packed::SendBlocksProof::from_compatible_slice(body).ok()?;
                            let (vh, op) = boundary_vh(rng, chain, &e.last_header());
                            Some((server::lc_msg(e.as_builder().last_header(vh).build()), format!("SendBlocksProof|last_header|{}", op)))
                        }
                    }
                }
                packed::LightClientMessageUnionReader::SendTransactionsProof(_) => {
                    let body = lc_union_body(data).1;
                    match rng.below(3) {
                        0 => Some((server::lc_raw_union(packed::SendTransactionsProof::default().into(), &with_extra_fields(&strip_to_fields(body, 4), rng)), "SendTransactionsProof|garbage-v1-fields".into())),
                        1 => Some((server::lc_raw_union(packed::SendTransactionsProof::default().into(), &with_extra_fields(body, rng)), "SendTransactionsProof|surplus-fields".into())),
                        _ => {
                            let e = packed::SendTransactionsProof::from_compatible_slice(body).ok()?;
                            let fbs: Vec<packed::FilteredBlock> = e.filtered_blocks().into_iter().collect();
                            if fbs.is_empty() {
                                return None;
                            }
                            let i = rng.pick_idx(fbs.len());
                            let idx: Vec<packed::Uint32> = (0..rng.range(0, 4)).map(|_| (b64(rng, 0) as u32).pack()).collect();
                            let proof = fbs[i].proof().as_builder().indices(packed::Uint32Vec::new_builder().set(idx).build()).build();
                            let mut f2 = fbs.clone();
                            f2[i] = fbs[i].clone().as_builder().proof(proof).build();
                            Some((server::lc_msg(e.as_builder().filtered_blocks(packed::FilteredBlockVec::new_builder().set(f2).build()).build()), "SendTransactionsProof|merkle-indices-extreme".into()))
                        }
                    }
                }
                _ => None,
            }
        }
        P::Filter => {
            let m = packed::BlockFilterMessageReader::from_slice(data).ok()?;
            match m.to_enum() {
                packed::BlockFilterMessageUnionReader::BlockFilters(r) => {
                    let e = r.to_entity();
                    let start: u64 = e.start_number().unpack();
                    match rng.below(7) {
                        5 | 6 => {
                            // authentic filters, but the (unverified) block hashes repeat: the same hash at two or at all positions, so
                            // that a matched-blocks record, a GetBlocksProof request and the download bookkeeping hold one hash twice
                            let mut hs: Vec<Byte32> = e.block_hashes().into_iter().collect();
                            if hs.len() < 2 {
                                return None;
                            }
                            let i = rng.pick_idx(hs.len());
                            let h = hs[i].clone();
                            if rng.chance(1, 2) {
                                for x in hs.iter_mut() {
                                    *x = h.clone();
                                }
                            } else {
                                let j = (i + 1 + rng.pick_idx(hs.len() - 1)) % hs.len();
                                hs[j] = h;
                            }
                            Some((server::filter_msg(e.as_builder().block_hashes(hs.pack()).build()), "BlockFilters|hash-repeated".into()))
                        }
                        0 => Some((server::filter_msg(e.as_builder().start_number(b64(rng, start).pack()).build()), "BlockFilters|start-extreme".into())),
                        1 => {
                            let mut fs: Vec<packed::Bytes> = e.filters().into_iter().collect();
                            if fs.is_empty() {
                                return None;
                            }
                            let i = rng.pick_idx(fs.len());
                            let gl = *rng.pick(&[0usize, 1, 7, 8, 9, 40]);
                            fs[i] = rng.bytes(gl).pack();
                            Some((server::filter_msg(e.as_builder().filters(fs.pack()).build()), "BlockFilters|filter-bytes-garbage".into()))
                        }
                        2 => {
                            let mut hs: Vec<Byte32> = e.block_hashes().into_iter().collect();
                            hs.pop();
                            Some((server::filter_msg(e.as_builder().block_hashes(hs.pack()).build()), "BlockFilters|count-mismatch".into()))
                        }
                        3 => Some((server::filter_msg(e.as_builder().filters(Default::default()).block_hashes(Default::default()).build()), "BlockFilters|empty".into())),
                        _ => {
                            let fs: Vec<packed::Bytes> = e.filters().into_iter().collect();
                            let hs: Vec<Byte32> = e.block_hashes().into_iter().collect();
                            let mut f2 = fs.clone();
                            let mut h2 = hs.clone();
                            for _ in 0..rng.range(1, 40) {
                                f2.extend(fs.iter().cloned());
                                h2.extend(hs.iter().cloned());
                            }
                            Some((server::filter_msg(e.as_builder().filters(f2.pack()).block_hashes(h2.pack()).build()), "BlockFilters|overlong".into()))
                        }
                    }
                }
                packed::BlockFilterMessageUnionReader::BlockFilterHashes(r) => {
                    let e = r.to_entity();
                    let start: u64 = e.start_number().unpack();
                    match rng.below(4) {
                        0 => Some((server::filter_msg(e.as_builder().start_number(b64(rng, start).pack()).build()), "BlockFilterHashes|start-extreme".into())),
                        1 => Some((server::filter_msg(e.as_builder().block_filter_hashes(Default::default()).build()), "BlockFilterHashes|empty".into())),
                        2 => {
                            let hs: Vec<Byte32> = e.block_filter_hashes().into_iter().collect();
                            let mut h2 = hs.clone();
                            for _ in 0..rng.range(1, 60) {
                                h2.extend(hs.iter().cloned());
                            }
                            Some((server::filter_msg(e.as_builder().block_filter_hashes(h2.pack()).build()), "BlockFilterHashes|overlong".into()))
                        }
                        _ => Some((server::filter_msg(e.as_builder().parent_block_filter_hash(Byte32::new(rand32(rng))).build()), "BlockFilterHashes|parent-hash".into())),
                    }
                }
                packed::BlockFilterMessageUnionReader::BlockFilterCheckPoints(r) => {
                    let e = r.to_entity();
                    let start: u64 = e.start_number().unpack();
                    match rng.below(3) {
                        0 => Some((server::filter_msg(e.as_builder().start_number(b64(rng, start).pack()).build()), "BlockFilterCheckPoints|start-extreme".into())),
                        1 => Some((server::filter_msg(e.as_builder().block_filter_hashes(Default::default()).build()), "BlockFilterCheckPoints|empty".into())),
                        _ => {
                            let hs: Vec<Byte32> = e.block_filter_hashes().into_iter().collect();
                            let mut h2 = hs.clone();
                            for _ in 0..rng.range(1, 300) {
                                h2.push(Byte32::new(rand32(rng)));
                            }
                            Some((server::filter_msg(e.as_builder().block_filter_hashes(h2.pack()).build()), "BlockFilterCheckPoints|overlong".into()))
                        }
                    }
                }
                _ => None,
            }
        }
        P::Sync => {
            let m = packed::SyncMessageReader::from_compatible_slice(data).ok()?;
            if let packed::SyncMessageUnionReader::SendBlock(r) = m.to_enum() {
                let b = r.block().to_entity();
                let b2 = match rng.below(3) {
                    0 => b.as_builder().transactions(Default::default()).build(),
                    1 => {
                        let raw = b.header().raw().as_builder().number(b64(rng, 0).pack()).build();
                        b.clone().as_builder().header(b.header().as_builder().raw(raw).build()).build()
                    }
                    _ => b.as_builder().uncles(Default::default()).proposals(Default::default()).build(),
                };
                return Some((server::sync_msg(packed::SendBlock::new_builder().block(b2).build()), "SendBlock|body-or-number".into()));
            }
            None
        }
        _ => None,
    }
}

/// keep only the first `n` fields of a molecule table
fn strip_to_fields(table: &[u8], n: usize) -> Vec<u8> {
    if table.len() < 8 {
        return table.to_vec();
    }
    let first_off = u32::from_le_bytes(table[4..8].try_into().unwrap()) as usize;
    if first_off < 8 || first_off > table.len() || first_off % 4 != 0 {
        return table.to_vec();
    }
    let cnt = first_off / 4 - 1;
    if cnt <= n {
        return table.to_vec();
    }
    let mut offs: Vec<usize> = (0..cnt).map(|i| u32::from_le_bytes(table[4 + 4 * i..8 + 4 * i].try_into().unwrap()) as usize).collect();
    offs.push(table.len());
    let fields: Vec<&[u8]> = (0..n).map(|i| &table[offs[i]..offs[i + 1]]).collect();
    let header = 4 + 4 * n;
    let total = header + fields.iter().map(|f| f.len()).sum::<usize>();
    let mut out = (total as u32).to_le_bytes().to_vec();
    let mut off = header;
    for f in fields.iter() {
        out.extend_from_slice(&(off as u32).to_le_bytes());
        off += f.len();
    }
    for f in fields {
        out.extend_from_slice(f);
    }
    out
}

/// grammar: a well-formed message of any union variant (also those a client should never receive)
fn grammar(rng: &mut Rng, chain: &Chain) -> (P, P2pBytes, String) {
    let tip = chain.tip();
    let n = rng.range(0, tip);
    let hashes = |rng: &mut Rng, max: u64| -> Vec<Byte32> { (0..rng.range(0, max)).map(|_| if rng.chance(1, 2) { chain.blocks[rng.range(0, tip) as usize].hash() } else { Byte32::new(rand32(rng)) }).collect() };
    match rng.below(22) {
        0 => (P::Lc, server::lc_msg(packed::GetLastState::new_builder().subscribe(true.pack()).build()), "GetLastState".into()),
        1 => (P::Lc, server::lc_msg(packed::SendLastState::new_builder().last_header(chain.vh(n)).build()), "SendLastState|any-block".into()),
        2 => {
            let m = packed::GetLastStateProof::new_builder()
                .last_hash(chain.blocks[n as usize].hash())
                .start_number(b64(rng, n).pack())
                .last_n_blocks(b64(rng, 5).pack())
                .difficulty_boundary(b256(rng).pack())
                .build();
            (P::Lc, server::lc_msg(m), "GetLastStateProof".into())
        }
        3 => {
            let nums: Vec<u64> = (0..rng.range(0, 6)).map(|_| rng.range(0, n.max(1) - 0).min(n.saturating_sub(1))).collect();
            let mut nums = nums;
            nums.sort();
            nums.dedup();
            let headers: Vec<_> = nums.iter().map(|x| chain.vh(*x)).collect();
            let m = packed::SendLastStateProof::new_builder().last_header(chain.vh(n)).headers(headers.pack()).proof(if n > 0 { chain.proof(n, &nums) } else { Default::default() }).build();
            (P::Lc, server::lc_msg(m), "SendLastStateProof|unsolicited-consistent".into())
        }
        4 => (P::Lc, server::lc_msg(packed::GetBlocksProof::new_builder().last_hash(chain.blocks[n as usize].hash()).block_hashes(hashes(rng, 5).pack()).build()), "GetBlocksProof".into()),
        5 => {
            let m = packed::SendBlocksProof::new_builder().last_header(chain.vh(n)).missing_block_hashes(hashes(rng, 4).pack()).build();
            (P::Lc, server::lc_msg(m), "SendBlocksProof|all-missing".into())
        }
        6 => (P::Lc, server::lc_msg(packed::GetTransactionsProof::new_builder().last_hash(chain.blocks[n as usize].hash()).tx_hashes(hashes(rng, 4).pack()).build()), "GetTransactionsProof".into()),
        7 => {
            let m = packed::SendTransactionsProof::new_builder().last_header(chain.vh(n)).missing_tx_hashes(hashes(rng, 4).pack()).build();
            (P::Lc, server::lc_msg(m), "SendTransactionsProof|all-missing".into())
        }
        8 => (P::Filter, server::filter_msg(packed::GetBlockFilters::new_builder().start_number(b64(rng, n).pack()).build()), "GetBlockFilters".into()),
        9 => {
            let start = b64(rng, n);
            let cnt = rng.range(0, 5);
            let fs: Vec<packed::Bytes> = (0..cnt).map(|i| chain.filters[((n + i).min(tip)) as usize].clone()).collect();
            let hs: Vec<Byte32> = (0..cnt).map(|i| chain.blocks[((n + i).min(tip)) as usize].hash()).collect();
            (P::Filter, server::filter_msg(packed::BlockFilters::new_builder().start_number(start.pack()).filters(fs.pack()).block_hashes(hs.pack()).build()), "BlockFilters|unsolicited".into())
        }
        10 => (P::Filter, server::filter_msg(packed::GetBlockFilterHashes::new_builder().start_number(b64(rng, n).pack()).build()), "GetBlockFilterHashes".into()),
        11 => {
            let cnt = rng.range(0, 6);
            let hs: Vec<Byte32> = (0..cnt).map(|i| chain.filter_hashes[((n + i).min(tip)) as usize].clone()).collect();
            let m = packed::BlockFilterHashes::new_builder().start_number(b64(rng, n).pack()).parent_block_filter_hash(chain.filter_hashes[n.saturating_sub(1) as usize].clone()).block_filter_hashes(hs.pack()).build();
            (P::Filter, server::filter_msg(m), "BlockFilterHashes|unsolicited".into())
        }
        12 => (P::Filter, server::filter_msg(packed::GetBlockFilterCheckPoints::new_builder().start_number(b64(rng, n).pack()).build()), "GetBlockFilterCheckPoints".into()),
        13 => {
            let cnt = rng.range(0, 5);
            let hs: Vec<Byte32> = (0..cnt).map(|_| chain.filter_hashes[rng.range(0, tip) as usize].clone()).collect();
            (P::Filter, server::filter_msg(packed::BlockFilterCheckPoints::new_builder().start_number(b64(rng, 0).pack()).block_filter_hashes(hs.pack()).build()), "BlockFilterCheckPoints|unsolicited".into())
        }
        14 => (P::Sync, server::sync_msg(packed::GetHeaders::new_builder().block_locator_hashes(hashes(rng, 4).pack()).build()), "GetHeaders".into()),
        15 => (P::Sync, server::sync_msg(packed::SendHeaders::new_builder().headers(vec![chain.blocks[n as usize].header().data()].pack()).build()), "SendHeaders".into()),
        16 => (P::Sync, server::sync_msg(packed::GetBlocks::new_builder().block_hashes(hashes(rng, 4).pack()).build()), "GetBlocks".into()),
        17 => (P::Sync, server::sync_msg(packed::SendBlock::new_builder().block(chain.blocks[n as usize].data()).build()), "SendBlock|unrequested".into()),
        18 => (P::Sync, server::sync_msg(packed::InIBD::new_builder().build()), "InIBD".into()),
        19 => (
            if rng.chance(1, 2) { P::Relay2 } else { P::Relay3 },
            packed::RelayMessage::new_builder().set(packed::GetRelayTransactions::new_builder().tx_hashes(hashes(rng, 5).pack()).build()).build().as_bytes(),
            "GetRelayTransactions".into(),
        ),
        20 => (
            if rng.chance(1, 2) { P::Relay2 } else { P::Relay3 },
            packed::RelayMessage::new_builder().set(packed::RelayTransactionHashes::new_builder().tx_hashes(hashes(rng, 5).pack()).build()).build().as_bytes(),
            "RelayTransactionHashes".into(),
        ),
        _ => (P::Relay2, packed::RelayMessage::new_builder().set(packed::RelayTransactions::default()).build().as_bytes(), "RelayTransactions".into()),
    }
}

struct Fuzz<'a> {
    out: &'a Out,
    k: u64,
    rng: Rng,
    desc: serde_json::Value,
    /// honest answers seen (for truncation / bit flip bases)
    pool: Vec<(P, P2pBytes)>,
    mutate_pct: u64,
    state_before: String,
    msgs: u64,
}

impl<'a> Fuzz<'a> {
    fn record_panic(&mut self, w: &World, m: &Resp, gen: &str) {
        if let Some((_, p)) = w.panics.last() {
            if p.message.contains(LONG_FORK_PANIC) {
                self.out.count("documented_long_fork_panic", 1);
                return;
            }
            let kind = server::kind_of(m.proto, &m.data);
            self.out.violation(
                "C10.R1",
                &p.signature("C10", &kind),
                json!({"scenario": self.desc, "generator": gen, "peer_state": self.state_before, "message": server::describe(m.proto, &m.data), "message_hex": hex_short(&m.data),
                    "full_hex_len": m.data.len(), "panic": p.message, "at": p.location, "bt": p.backtrace_head, "trace": w.trace_vec().into_iter().rev().take(12).collect::<Vec<_>>()}),
                self.k,
            );
        }
    }
}

impl<'a> Hook for Fuzz<'a> {
    fn respond(&mut self, w: &mut World, pi: usize, _sent: &Sent, honest: Vec<Resp>) -> Vec<Resp> {
        let chain = &w.chains[w.peers[pi].chain];
        let mut out = vec![];
        for r in honest {
            if self.pool.len() < 64 {
                self.pool.push((r.proto, r.data.clone()));
            }
            if self.rng.below(100) < self.mutate_pct {
                if let Some((d, op)) = boundary_mutate(&mut self.rng, chain, r.proto, &r.data) {
                    out.push(Resp { proto: r.proto, data: d, label: Label::Invalid(format!("boundary:{}", op)) });
                    if self.rng.chance(1, 2) {
                        out.push(r);
                    }
                    continue;
                }
            }
            out.push(r);
        }
        out
    }
    fn before_deliver(&mut self, w: &mut World, pi: usize, _m: &Resp) {
        self.state_before = state_name(w, w.peers[pi].id);
    }
    fn after_deliver(&mut self, w: &mut World, _pi: usize, m: &Resp, o: &Outcome) {
        self.msgs += 1;
        self.out.eval(1);
        let gen = match &m.label {
            Label::Invalid(op) => op.clone(),
            Label::Honest => "honest".to_string(),
            Label::Unjudged => "injected".to_string(),
        };
        let outcome = if o.panic.is_some() { "PANIC" } else if !o.banned.is_empty() { "ban" } else { "ok" };
        let genclass = gen.split('|').take(2).collect::<Vec<_>>().join("|");
        self.out.cell(&format!("{}|{}|{}|{}", server::kind_of(m.proto, &m.data), self.state_before, genclass, outcome));
        if m.label != Label::Honest {
            let (kind, st) = (server::kind_of(m.proto, &m.data), self.state_before.clone());
            self.out.sample(&format!("hostile-message|{}", outcome), 2, || json!({"message": kind, "bytes": m.data.len(), "generator": gen, "peer_state_before": st, "outcome": outcome}));
        }
        if o.panic.is_some() {
            self.record_panic(w, m, &gen);
        }
    }
    fn after_timer(&mut self, w: &mut World, proto: P, token: u64, o: &Outcome) {
        self.out.eval(1);
        if o.panic.is_some() {
            if let Some((_, p)) = w.panics.last() {
                if !p.message.contains(LONG_FORK_PANIC) {
                    self.out.violation("C10.R1", &p.signature("C10", &format!("timer-{:?}-{}", proto, token)), json!({"scenario": self.desc, "panic": p.message, "at": p.location, "bt": p.backtrace_head,
                        "trace": w.trace_vec().into_iter().rev().take(12).collect::<Vec<_>>()}), self.k);
                }
            }
        }
    }
}

pub fn run(cfg: &RunCfg, out: &Out) {
    for k in 0..cfg.budget {
        if out.time_up() {
            break;
        }
        if let Some(only) = cfg.only_scenario {
            if k != only {
                continue;
            }
        }
        scenario(cfg.scenario_seed(k), k, out);
    }
}

fn scenario(seed: u64, k: u64, out: &Out) {
    let mut rng = Rng::new(seed);
    let (now, base_ts) = time_base();
    let mut params = gen_params_with_jumps(&mut rng, seed, base_ts);
    if rng.chance(1, 2) {
        params.pow = PowKind::Dummy; // lets extreme difficulties pass the PoW gate
    }
    let len = gen_len(&mut rng).min(120).max(4);
    let mut ccfg = gen_ccfg(&mut rng);
    ccfg.max_outbound = *rng.pick(&[1u32, 1, 2, 3]);
    let main = Chain::generate(params.clone(), len);
    let mut w = World::new(main, ccfg.clone(), seed, now);
    let mut net = HonestNet::new(0);
    let with_scripts = rng.chance(2, 3);
    if with_scripts {
        let regs = pick_scripts(&mut rng, &w.chains[0], 3, len);
        set_scripts(&w, &regs, None);
    }
    let npeers = rng.range(1, 3) as usize;
    for _ in 0..npeers {
        w.add_peer(0, false);
    }
    let desc = json!({"seed": seed, "scenario": k, "pow": format!("{:?}", params.pow), "len": len, "last_n": ccfg.last_n, "peers": npeers, "scripts": with_scripts, "max_outbound": ccfg.max_outbound});
    let mut fz = Fuzz { out, k, rng: rng.fork(9), desc: desc.clone(), pool: vec![], mutate_pct: *rng.pick(&[0u64, 15, 40, 70]), state_before: String::new(), msgs: 0 };
    w.connect_all();
    let steps = rng.range(20, 120);
    for _ in 0..steps {
        if w.dead {
            break;
        }
        match rng.below(12) {
            0 | 1 | 2 => {
                w.round(&mut fz);
            }
            10 => {
                // peer churn: the set of proved peers (and with it the agreed filter hashes / check points) changes
                let connected: Vec<usize> = (0..w.peers.len()).filter(|i| w.peers[*i].connected).collect();
                if connected.len() >= 2 && rng.chance(1, 2) {
                    let pi = *rng.pick(&connected);
                    w.disconnect(pi);
                } else if w.peers.len() < 6 {
                    let pi = w.add_peer(0, false);
                    w.connect(pi);
                }
            }
            11 => {
                // restart: everything that lives in memory only (agreed filter hashes, peer states) is gone
                if rng.chance(1, 3) {
                    if w.restart().is_err() {
                        break;
                    }
                    w.connect_all();
                }
            }
            3 => net.grow(&mut w, rng.range(1, 6)),
            4 => {
                // fetch requests make blocks-proof / txs-proof requests outstanding
                let c = &w.chains[0];
                let h = c.blocks[rng.range(0, c.tip()) as usize].hash();
                let now = w.now;
                w.c().peers.add_fetch_header(h, now);
                if let Some((txh, _)) = c.txs.iter().next() {
                    w.c().peers.add_fetch_tx(txh.clone(), now);
                }
            }
            5 => {
                w.connect_all();
            }
            _ => {
                // inject: grammar message, truncation, bit flip or random bytes - from any peer, also unknown ones
                let connected: Vec<usize> = (0..w.peers.len()).filter(|i| w.peers[*i].connected).collect();
                if connected.is_empty() {
                    w.connect_all();
                    continue;
                }
                let pi = *rng.pick(&connected);
                let chain = w.chains[0].clone();
                let (proto, data, gen): (P, P2pBytes, String) = match rng.below(9) {
                    8 if w.client.is_some() => {
                        // state-aware probe: a BlockFilters batch that continues exactly at the client's filter progress
                        // (accepted by the start-number check in every state), with arbitrary content
                        let start = w.c().storage.get_min_filtered_block_number() + 1;
                        let n = rng.range(1, 3) as usize;
                        let filters: Vec<packed::Bytes> = (0..n).map(|_| { let l = rng.range(0, 12) as usize; rng.bytes(l).pack() }).collect();
                        let hashes: Vec<Byte32> = (0..n).map(|i| if (start as usize + i) <= chain.tip() as usize { chain.blocks[start as usize + i].hash() } else { Byte32::zero() }).collect();
                        let m = packed::BlockFilters::new_builder().start_number(start.pack()).block_hashes(hashes.pack()).filters(filters.pack()).build();
                        (P::Filter, server::filter_msg(m), "state-aware|BlockFilters-at-filter-progress".into())
                    }
                    0 | 1 | 2 => {
                        let (p, d, g) = grammar(&mut fz.rng, &chain);
                        (p, d, format!("grammar|{}", g))
                    }
                    3 if !fz.pool.is_empty() => {
                        let (p, d) = fz.pool[rng.pick_idx(fz.pool.len())].clone();
                        let cut = rng.below(d.len() as u64) as usize;
                        (p, d.slice(0..cut), "truncation".into())
                    }
                    4 if !fz.pool.is_empty() => {
                        let (p, d) = fz.pool[rng.pick_idx(fz.pool.len())].clone();
                        let mut v = d.to_vec();
                        for _ in 0..rng.range(1, 4) {
                            let i = rng.pick_idx(v.len());
                            v[i] ^= 1 << rng.below(8);
                        }
                        (p, P2pBytes::from(v), "bit-flips".into())
                    }
                    5 if !fz.pool.is_empty() => {
                        let (p, d) = fz.pool[rng.pick_idx(fz.pool.len())].clone();
                        match boundary_mutate(&mut fz.rng, &chain, p, &d) {
                            Some((d2, op)) => (p, d2, format!("boundary-unsolicited:{}", op)),
                            None => (p, d, "replay".into()),
                        }
                    }
                    6 => {
                        let p = *rng.pick(&[P::Lc, P::Filter, P::Sync, P::Relay2, P::Relay3]);
                        let l = *rng.pick(&[0usize, 1, 3, 4, 5, 8, 12, 64, 300]);
                        let mut v = rng.bytes(l);
                        if l >= 4 && rng.chance(2, 3) {
                            v[..4].copy_from_slice(&(rng.below(9) as u32).to_le_bytes());
                        }
                        if l >= 8 && rng.chance(1, 2) {
                            v[4..8].copy_from_slice(&((l - 4) as u32).to_le_bytes());
                        }
                        (p, P2pBytes::from(v), "random-bytes".into())
                    }
                    _ => {
                        let (p, d, g) = grammar(&mut fz.rng, &chain);
                        (p, d, format!("grammar|{}", g))
                    }
                };
                let _ = mutate::rand32;
                w.deliver(pi, Resp { proto, data, label: Label::Invalid(gen) }, &mut fz);
                // timers right after the message
                if !w.dead && rng.chance(1, 3) {
                    let (tp, tk) = *rng.pick(&[(LC, 0u64), (LC, 1), (LC, 2), (FILTER, 0), (FILTER, 1), (FILTER, 2)]);
                    w.fire(tp, tk, &mut fz);
                }
            }
        }
    }
    let _ = SYNC;
    out.count("scenarios", 1);
    out.count("messages", fz.msgs);
    w.close();
}
