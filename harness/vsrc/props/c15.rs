//! C15 - every proof request the client builds is well-formed and samples enough.
//! (1) generator over synthetic peer states / stored tips calling the real request builders,
//! (2) monitor over every GetLastStateProof the client emits in world scenarios.

use std::sync::Arc;

use ckb_network::PeerIndex;
use ckb_types::{
    core::{EpochNumberWithFraction, HeaderBuilder, HeaderView},
    packed::{self, Byte32},
    prelude::*,
    utilities::{difficulty_to_compact, merkle_mountain_range::VerifiableHeader},
    U256,
};
use serde_json::{json, Value};

use crate::protocols::light_client::verif_access::sample_blocks;
use crate::protocols::{LastState, Peers};
use crate::storage::Storage;

use super::super::chain::{Chain, ChainParams};
use super::super::client::{self, new_lc, ClientCfg};
use super::super::net::Sent;
use super::super::out::{Out, RunCfg};
use super::super::rng::Rng;
use super::super::server;
use super::super::util::{guarded, Unwound};
use super::super::world::{Hook, World};
use super::common::*;

pub const C_FRACTION: f64 = 0.5;
pub const LAMBDA: f64 = 50.0;

/// independently written FlyClient bound (DESIGN C15): number of samples required
pub fn required_samples(blocks: u64, last_n: u64) -> u64 {
    if blocks <= last_n {
        return 0;
    }
    let k = ((last_n as f64) / (blocks as f64)).ln() / C_FRACTION.ln();
    let p_miss = 1.0 - 1.0 / k;
    let m = if !(p_miss > 0.0) || !(k > 1.0) {
        0.0 // degenerate region (fewer than 2*last_n blocks): one sample suffices
    } else {
        (LAMBDA / (-(p_miss.ln() / 2f64.ln()))).ceil()
    };
    let m = if m.is_finite() && m > 0.0 { m as u64 } else { 0 };
    if m <= last_n {
        1
    } else if m > blocks {
        blocks - last_n
    } else {
        m - last_n
    }
}

pub struct Truth {
    pub start_number: u64,
    pub start_td: U256,
    /// total difficulty of the start before rebasing onto a stored last-N header (None: unknown)
    pub orig_start_td: Option<U256>,
    pub last_number: u64,
    pub last_td: U256,
}

/// judge one request against ground truth; returns (rule, signature suffix, detail)
pub fn judge_request(req: &packed::GetLastStateProof, t: &Truth, last_n_cfg: u64) -> Vec<(String, String, Value)> {
    let mut v = vec![];
    let start_number: u64 = req.start_number().unpack();
    let last_n: u64 = req.last_n_blocks().unpack();
    let boundary: U256 = req.difficulty_boundary().unpack();
    let diffs: Vec<U256> = req.difficulties().into_iter().map(|d| d.unpack()).collect();
    let base = json!({"start_number": start_number, "last_number": t.last_number, "start_td": format!("{:#x}", t.start_td), "last_td": format!("{:#x}", t.last_td),
        "boundary": format!("{:#x}", boundary), "n_difficulties": diffs.len(), "last_n": last_n,
        "first_difficulties": diffs.iter().take(4).map(|d| format!("{:#x}", d)).collect::<Vec<_>>()});
    if last_n != last_n_cfg {
        v.push(("C15.R1".into(), "last-n-mismatch".into(), base.clone()));
    }
    if start_number != t.start_number {
        v.push(("C15.R1".into(), "start-number-is-not-the-number-of-start-hash".into(), base.clone()));
    }
    if t.start_number >= t.last_number {
        v.push(("C15.R1".into(), "start-not-below-last".into(), base.clone()));
        return v;
    }
    if t.start_td > t.last_td {
        v.push(("C15.R2".into(), "start-td-above-last-td".into(), base.clone()));
        return v;
    }
    let gap = t.last_number - t.start_number;
    if gap <= last_n {
        if !diffs.is_empty() {
            v.push(("C15.R5".into(), "samples-although-at-most-last-n-missing".into(), base.clone()));
        }
        // boundary: between start and last total difficulty (the start may have been rebased downwards)
        let lo = t.start_td.clone();
        if boundary < lo || boundary > t.last_td {
            v.push(("C15.R3".into(), "boundary-outside-range|all-blocks-mode".into(), base.clone()));
        }
        return v;
    }
    // sampling mode
    if boundary < t.start_td || boundary > t.last_td {
        v.push(("C15.R3".into(), "boundary-outside-range|sampling-mode".into(), base.clone()));
    }
    if diffs.is_empty() {
        v.push(("C15.R5".into(), "no-samples-although-more-than-last-n-missing".into(), base.clone()));
    }
    if diffs.windows(2).any(|w| w[0] >= w[1]) {
        v.push(("C15.R4".into(), "difficulties-not-strictly-increasing".into(), base.clone()));
    }
    let lo = t.orig_start_td.clone().unwrap_or_else(|| t.start_td.clone());
    // the open interval (start, boundary) is empty when boundary = start + 1
    let interval_empty = boundary <= &lo + 1u64;
    for d in diffs.iter() {
        if *d >= boundary {
            v.push(("C15.R4".into(), "difficulty-not-below-boundary".into(), base.clone()));
            break;
        }
        if *d <= lo {
            let tag = if interval_empty { "difficulty-not-above-start|empty-interval" } else { "difficulty-not-above-start" };
            v.push(("C15.R4".into(), tag.into(), base.clone()));
            break;
        }
    }
    // count: strict only where identical draws are practically impossible (range >= 2^64)
    let need = required_samples(gap, last_n);
    let range = &t.last_td - &t.start_td;
    let got = diffs.len() as u64;
    if range >= (U256::one() << 64usize) {
        if got + 1 < need {
            let mut b = base.clone();
            b["required"] = json!(need);
            let ratio = gap / last_n.max(1);
            let ratio_class = if ratio >= 1_000_000_000 { "gap-over-1e9-last-n" } else if ratio >= 1_000_000 { "gap-1e6..1e9-last-n" } else { "gap-below-1e6-last-n" };
            let deficit_permille = (need - got) * 1000 / need;
            b["deficit_permille"] = json!(deficit_permille);
            let bucket = if deficit_permille < 50 { "deficit<5%" } else if deficit_permille < 500 { "deficit<50%" } else { "deficit>=50%" };
            v.push(("C15.R6".into(), format!("too-few-samples|{}|{}", ratio_class, bucket), b));
        }
    }
    if got > need.max(1) + 1 {
        let mut b = base.clone();
        b["required"] = json!(need);
        v.push(("C15.R6".into(), "more-samples-than-the-bound".into(), b));
    }
    v
}

fn synth_header(number: u64, nonce: u64, difficulty: &U256) -> HeaderView {
    HeaderBuilder::default()
        .number(number.pack())
        .epoch(EpochNumberWithFraction::new(number / 1000 % 16_000_000, number % 1000, 1000).pack())
        .compact_target(difficulty_to_compact(difficulty.clone()).pack())
        .nonce((nonce as u128).pack())
        .timestamp(1_900_000_000_000u64.pack())
        .build()
}

/// verifiable header with number and total difficulty of our choice
fn synth_vh(number: u64, nonce: u64, td: &U256) -> VerifiableHeader {
    let h = synth_header(number, nonce, &U256::one());
    let own = h.difficulty();
    let parent_td = if *td >= own { td - &own } else { U256::zero() };
    let root = packed::HeaderDigest::new_builder().total_difficulty(parent_td.pack()).end_number(number.saturating_sub(1).pack()).build();
    VerifiableHeader::new(h, Default::default(), None, root)
}

fn pick_td(rng: &mut Rng) -> U256 {
    match rng.below(7) {
        0 => U256::from(rng.below(1000)),
        1 => U256::from(rng.next_u64()),
        2 => (U256::one() << 64usize) + U256::from(rng.next_u64()),
        3 => U256::one() << (rng.range(65, 250) as usize),
        4 => (U256::one() << (rng.range(65, 250) as usize)) + U256::from(rng.next_u64()),
        5 => U256::max_value() - U256::from(rng.below(1000)),
        _ => U256::from(rng.below(1 << 40)),
    }
}

fn pick_number(rng: &mut Rng) -> u64 {
    match rng.below(6) {
        0 => rng.below(300),
        1 => rng.below(100_000),
        2 => (1u64 << 32) + rng.below(1000),
        3 => u64::MAX - rng.below(1000) - 3000,
        4 => (1u64 << 63) + rng.below(1 << 20),
        _ => rng.below(1 << 24),
    }
}

fn gap_class(gap: u64, last_n: u64) -> &'static str {
    if gap == 1 {
        "gap1"
    } else if gap < last_n {
        "gap<n"
    } else if gap == last_n {
        "gap=n"
    } else if gap == last_n + 1 {
        "gap=n+1"
    } else if gap < 2 * last_n {
        "gap<2n"
    } else if gap < 100 * last_n {
        "gap<100n"
    } else {
        "gap-huge"
    }
}

fn mag_class(td: &U256) -> &'static str {
    if *td < U256::from(1u64 << 20) {
        "small"
    } else if *td < (U256::one() << 64usize) {
        "u64"
    } else if *td < (U256::one() << 200usize) {
        "wide"
    } else {
        "huge"
    }
}

fn generator(cfg: &RunCfg, out: &Out) {
    let (_now, base_ts) = time_base();
    let tiny = Chain::generate(ChainParams::simple(7, base_ts), 3);
    let genesis = tiny.genesis();
    let consensus = tiny.consensus();
    let dir = client::fresh_dir();
    let storage = Storage::new(&dir);
    storage.init_genesis_block(genesis.data());
    let peer = PeerIndex::new(1);
    for k in 0..cfg.budget {
        if out.time_up() {
            break;
        }
        let mut rng = Rng::new(cfg.scenario_seed(k));
        let last_n = *rng.pick(&[1u64, 2, 3, 5, 10, 25, 100, 100, 1000]);
        let ccfg = ClientCfg { last_n, ..Default::default() };
        let peers = Arc::new(Peers::new(1, 2000, storage.get_last_check_point()));
        let lc = new_lc(&storage, &peers, &consensus, &ccfg);
        // start point: previous proof of this peer, or the stored tip (with stored last-N headers)
        let start_number = pick_number(&mut rng);
        let start_td = pick_td(&mut rng);
        let gap = match rng.below(8) {
            0 => 1,
            1 => last_n,
            2 => last_n + 1,
            3 => rng.range(1, last_n),
            4 => rng.range(last_n + 1, 2 * last_n + 2),
            5 => rng.range(2 * last_n, 200 * last_n + 10),
            6 => rng.range(1, 1 << 40),
            _ => 0, // degenerate: last == start
        };
        let last_number = match start_number.checked_add(gap) {
            Some(n) => n,
            None => continue,
        };
        let td_gap = match rng.below(6) {
            0 => U256::from(gap),
            1 => U256::one(),
            2 => U256::zero(),
            3 => U256::from(rng.next_u64()),
            4 => U256::one() << (rng.range(64, 240) as usize),
            _ => U256::from(gap) * rng.range(1, 1000),
        };
        // a chain cannot accumulate less than 1 per block: such (number, difficulty) pairs can only come
        // from a lying announcement; they are exercised for "no panic" but the clauses are not judged
        let consistent = td_gap >= U256::from(gap);
        let backwards = rng.chance(1, 12);
        let last_td = if backwards {
            if start_td.is_zero() { continue } else { &start_td - 1u64 }
        } else {
            match start_td.checked_add(&td_gap) {
                Some(t) => t,
                None => continue,
            }
        };
        // Inputs outside the function's domain are not generated: a verifiable header's total difficulty is at least its
        // own difficulty (synth_vh could not express less), and the start is always a *proved* state - an accumulated
        // difficulty of 2^256-1 is not a state any chain can reach (start + 1 would overflow in sample_blocks).
        if start_td.is_zero() || last_td.is_zero() || start_td == U256::max_value() {
            continue;
        }
        let start_vh = synth_vh(start_number, 1, &start_td);
        let last_vh = synth_vh(last_number, 2, &last_td);
        let with_prev_proof = rng.chance(1, 2);
        // stored last-N headers: ancestors of the stored tip. The stored tip is the start itself, or - when the start is this
        // peer's own proved header - a higher header that another peer has proved meanwhile: the remembered headers then lie
        // partly or wholly ABOVE the start of the request
        let stored_tip_above = with_prev_proof && rng.chance(1, 3);
        let tip_number = if stored_tip_above { start_number.saturating_add(rng.range(1, 2 * last_n.min(1000) + 3)) } else { start_number };
        let tip_td = match start_td.checked_add(&U256::from(tip_number - start_number)) {
            Some(t) => t,
            None => continue,
        };
        let n_stored = rng.range(0, last_n.min(30));
        let mut stored: Vec<HeaderView> = vec![];
        for j in (1..=n_stored).rev() {
            if tip_number >= j {
                stored.push(synth_header(tip_number - j, 9, &U256::one()));
            }
        }
        if stored_tip_above {
            storage.update_last_state(&tip_td, &synth_vh(tip_number, 3, &tip_td).header().data(), &stored);
        } else {
            storage.update_last_state(&start_td, &start_vh.header().data(), &stored);
        }
        peers.add_peer(peer);
        let ok = if with_prev_proof {
            peers.mock_prove_state(peer, start_vh.clone()).is_ok()
        } else {
            peers.request_last_state(peer).is_ok()
        } && peers.update_last_state(peer, LastState::new(last_vh.clone())).is_ok();
        if !ok {
            continue;
        }
        let state = peers.get_state(&peer).expect("state");
        let from_genesis = rng.chance(1, 10);
        let res = guarded(|| if from_genesis { lc.build_prove_request_content_from_genesis(&last_vh) } else { lc.build_prove_request_content(&state, &last_vh) });
        out.eval(1);
        let cell = format!(
            "{}|{}|n{}|{}|{}",
            if from_genesis { "from-genesis" } else if stored_tip_above { "prev-proof+stored-tip-of-another-peer-above" } else if with_prev_proof { "prev-proof" } else { "stored-tip" },
            gap_class(gap, last_n), last_n, mag_class(&td_gap), if backwards { "td-backwards" } else { "td-fwd" }
        );
        let desc = json!({"k": k, "last_n": last_n, "start_number": start_number, "gap": gap, "start_td": format!("{:#x}", start_td), "last_td": format!("{:#x}", last_td),
            "with_prev_proof": with_prev_proof, "stored_last_n": stored.len(), "stored_tip_number": tip_number, "from_genesis": from_genesis});
        match res {
            Err(Unwound::Panic(p)) => {
                out.violation("C15.R1", &p.signature("C15", "build_prove_request_content"), json!({"input": desc, "panic": p.message, "at": p.location, "bt": p.backtrace_head}), k);
            }
            Err(_) => {}
            Ok(None) => {
                out.cell(&format!("none|{}", cell));
                // no request may be refused when start < last and td(start) <= td(last)
                let (s_no, s_td) = if from_genesis { (0u64, U256::zero()) } else { (start_number, start_td.clone()) };
                if s_no < last_number && s_td <= last_td {
                    out.violation("C15.R1", "C15|no-request-although-provable", json!({"input": desc}), k);
                }
            }
            Ok(Some(req)) => {
                out.cell(&format!("req|{}", cell));
                let req_start: u64 = req.start_number().unpack();
                let truth = if from_genesis {
                    Truth { start_number: 0, start_td: U256::zero(), orig_start_td: None, last_number, last_td: last_td.clone() }
                } else if req_start != start_number {
                    // rebased onto a stored last-N header: it must be one of them
                    let found = stored.iter().find(|h| h.number() == req_start && h.hash() == req.start_hash());
                    if found.is_none() {
                        out.violation("C15.R1", "C15|rebased-start-is-not-a-stored-header", json!({"input": desc, "req_start": req_start}), k);
                        continue;
                    }
                    if req_start > start_number {
                        out.violation("C15.R1", "C15|rebased-start-above-start", json!({"input": desc, "req_start": req_start}), k);
                        continue;
                    }
                    // td of the rebased header is unknown to the client: it keeps the boundary at the original start td
                    Truth { start_number: req_start, start_td: U256::zero(), orig_start_td: Some(start_td.clone()), last_number, last_td: last_td.clone() }
                } else {
                    if req.start_hash() != start_vh.header().hash() {
                        out.violation("C15.R1", "C15|start-hash-mismatch", json!({"input": desc}), k);
                    }
                    Truth { start_number, start_td: start_td.clone(), orig_start_td: None, last_number, last_td: last_td.clone() }
                };
                if req.last_hash() != last_vh.header().hash() {
                    out.violation("C15.R1", "C15|last-hash-mismatch", json!({"input": desc}), k);
                }
                if consistent || from_genesis {
                    for (rule, tag, detail) in judge_request(&req, &truth, last_n) {
                        out.violation(&rule, &format!("C15|{}", tag), json!({"input": desc, "request": detail}), k);
                    }
                } else {
                    out.count("inconsistent_inputs_not_judged", 1);
                }
                let nd = req.difficulties().len();
                out.sample(&format!("request|{}", gap_class(gap, last_n)), 1, || json!({"input": desc, "difficulties": nd, "required": required_samples(last_number - req_start, last_n)}));
            }
        }
        peers.remove_peer(peer);
        // direct sampling calls (distribution evidence, range/ordering judged)
        if gap > last_n && !backwards && consistent {
            let r = guarded(|| sample_blocks(start_number, &start_td, last_number, &last_td, last_n));
            out.eval(1);
            match r {
                Ok((boundary, diffs)) => {
                    let req = packed::GetLastStateProof::new_builder()
                        .start_number(start_number.pack())
                        .last_n_blocks(last_n.pack())
                        .difficulty_boundary(boundary.pack())
                        .difficulties(diffs.iter().map(|d| d.pack()).pack())
                        .build();
                    let truth = Truth { start_number, start_td: start_td.clone(), orig_start_td: None, last_number, last_td: last_td.clone() };
                    for (rule, tag, detail) in judge_request(&req, &truth, last_n) {
                        out.violation(&rule, &format!("C15|{}", tag), json!({"input": desc, "request": detail, "direct": true}), k);
                    }
                    out.max("max_samples_requested", diffs.len() as u64);
                }
                Err(Unwound::Panic(p)) => out.violation("C15.R1", &p.signature("C15", "sample_blocks"), json!({"input": desc, "panic": p.message}), k),
                Err(_) => {}
            }
        }
    }
    drop(storage);
    let _ = std::fs::remove_dir_all(&dir);
}

/// monitor: every GetLastStateProof the client sends, judged against the chains of the world
pub struct RequestMonitor<'a> {
    pub out: &'a Out,
    pub k: u64,
    pub seen: u64,
}

impl<'a> Hook for RequestMonitor<'a> {
    fn on_sent(&mut self, w: &mut World, sent: &Sent) {
        if sent.proto != server::LC.id() {
            return;
        }
        let m = match packed::LightClientMessageReader::from_compatible_slice(&sent.data) {
            Ok(m) => m,
            Err(_) => return,
        };
        let req = match m.to_enum() {
            packed::LightClientMessageUnionReader::GetLastStateProof(r) => r.to_entity(),
            _ => return,
        };
        self.seen += 1;
        self.out.eval(1);
        // ground truth: look the named headers up in the chains
        let find = |h: &Byte32| -> Option<(u64, U256)> {
            for c in w.chains.iter() {
                if let Some(n) = c.num_of(h) {
                    return Some((n, c.td(n)));
                }
            }
            None
        };
        let last = find(&req.last_hash());
        let start = find(&req.start_hash());
        let (last, start) = match (last, start) {
            (Some(l), Some(s)) => (l, s),
            _ => {
                self.out.count("monitor_unknown_header", 1);
                return;
            }
        };
        // start may be rebased: the boundary refers to the client's own start (proven or stored tip)
        let gap = last.0.saturating_sub(start.0);
        let last_n = w.ccfg.last_n;
        let orig = if gap <= last_n {
            let b: U256 = req.difficulty_boundary().unpack();
            Some(b)
        } else {
            None
        };
        // genesis: the client counts the stored genesis total difficulty as zero
        let start_td = if start.0 == 0 { U256::zero() } else { start.1.clone() };
        let truth = Truth { start_number: start.0, start_td: if gap <= last_n { U256::zero() } else { start_td }, orig_start_td: orig, last_number: last.0, last_td: last.1.clone() };
        self.out.cell(&format!("world|{}|n{}", gap_class(gap, last_n), last_n));
        for (rule, tag, detail) in judge_request(&req, &truth, last_n) {
            self.out.violation(&rule, &format!("C15|{}", tag), json!({"world": true, "request": detail, "trace": w.trace_vec().into_iter().rev().take(12).collect::<Vec<_>>()}), self.k);
        }
    }
}

fn world_part(cfg: &RunCfg, out: &Out) {
    let n = (cfg.budget / 200).max(3);
    for k in 0..n {
        if out.time_up() {
            break;
        }
        let seed = cfg.scenario_seed(1_000_000 + k);
        let mut rng = Rng::new(seed);
        let (now, base_ts) = time_base();
        let params = gen_params_with_jumps(&mut rng, seed, base_ts);
        let len = gen_len(&mut rng);
        let ccfg = gen_ccfg(&mut rng);
        let mut w = World::new(Chain::generate(params, len), ccfg, seed, now);
        let mut net = HonestNet::new(0);
        let np = rng.range(1, 3);
        for i in 0..np {
            let ci = if i == 0 {
                0
            } else {
                let lag = rng.range(1, (len / 2).max(1)).min(len - 1);
                net.add_view(&mut w, lag)
            };
            w.add_peer(ci, true);
        }
        let mut mon = RequestMonitor { out, k, seen: 0 };
        w.connect_all();
        for _phase in 0..rng.range(2, 6) {
            for _ in 0..12 {
                w.round(&mut mon);
            }
            if w.dead {
                break;
            }
            match rng.below(3) {
                0 => net.grow(&mut w, rng.range(1, 40)),
                1 => {
                    if w.restart().is_err() {
                        break;
                    }
                    net.grow_silent(&mut w, rng.range(1, 150));
                    w.connect_all();
                }
                _ => {
                    let g = w.ccfg.last_n + rng.range(0, 2);
                    net.grow(&mut w, g)
                }
            }
        }
        out.count("world_requests_judged", mon.seen);
        w.close();
    }
}

/// the part of the workload that needs no store (what Miri can interpret): direct calls of `sample_blocks` on generated
/// start / last numbers and total difficulties, judged by the same clauses (order, uniqueness, range, count)
fn pure_generator(cfg: &RunCfg, out: &Out) {
    for k in 0..cfg.budget {
        if out.time_up() {
            break;
        }
        let mut rng = Rng::new(cfg.scenario_seed(k) ^ 0x5a17);
        let last_n = *rng.pick(&[1u64, 2, 3, 5, 10, 25, 100, 1000]);
        let start_number = pick_number(&mut rng);
        let start_td = pick_td(&mut rng);
        let gap = match rng.below(4) {
            0 => last_n + 1,
            1 => rng.range(last_n + 1, 2 * last_n + 2),
            2 => rng.range(2 * last_n, 200 * last_n + 10),
            _ => rng.range(last_n + 1, 1 << 40),
        };
        let last_number = match start_number.checked_add(gap) {
            Some(n) => n,
            None => continue,
        };
        let td_gap = match rng.below(4) {
            0 => U256::from(gap),
            1 => U256::from(gap) + U256::from(rng.next_u64()),
            2 => U256::one() << (rng.range(64, 240) as usize),
            _ => U256::from(gap) * rng.range(1, 1000),
        };
        if td_gap < U256::from(gap) || start_td.is_zero() || start_td == U256::max_value() {
            continue;
        }
        let last_td = match start_td.checked_add(&td_gap) {
            Some(t) => t,
            None => continue,
        };
        let desc = json!({"start_number": start_number, "last_number": last_number, "last_n": last_n, "start_td": format!("{:#x}", start_td), "last_td": format!("{:#x}", last_td)});
        let r = guarded(|| sample_blocks(start_number, &start_td, last_number, &last_td, last_n));
        out.eval(1);
        out.cell(&format!("pure|{}|{}|{}", gap_class(gap, last_n), last_n, mag_class(&last_td)));
        match r {
            Ok((boundary, diffs)) => {
                let req = packed::GetLastStateProof::new_builder()
                    .start_number(start_number.pack())
                    .last_n_blocks(last_n.pack())
                    .difficulty_boundary(boundary.pack())
                    .difficulties(diffs.iter().map(|d| d.pack()).pack())
                    .build();
                let truth = Truth { start_number, start_td: start_td.clone(), orig_start_td: None, last_number, last_td: last_td.clone() };
                for (rule, tag, detail) in judge_request(&req, &truth, last_n) {
                    out.violation(&rule, &format!("C15|{}", tag), json!({"input": desc, "request": detail, "direct": true}), k);
                }
                out.max("max_samples_requested", diffs.len() as u64);
            }
            Err(Unwound::Panic(p)) => out.violation("C15.R1", &p.signature("C15", "sample_blocks"), json!({"input": desc, "panic": p.message}), k),
            Err(_) => {}
        }
    }
}

pub fn run(cfg: &RunCfg, out: &Out) {
    if cfg.tier == "miri" {
        // Miri cannot cross the RocksDB FFI: only the store-free part runs under it
        pure_generator(cfg, out);
        return;
    }
    generator(cfg, out);
    world_part(cfg, out);
}
