//! Shared scenario generators.

use ckb_types::{packed::Script, prelude::*, U256};

use crate::service::{BlockFilterRpc, ScriptStatus as RpcScriptStatus, SetScriptsCommand};

use super::super::chain::{Chain, ChainParams, DiffMode, PowKind};
use super::super::client::ClientCfg;
use super::super::refidx::{Registered, ST};
use super::super::rng::Rng;
use super::super::world::World;

pub fn real_now_ms() -> u64 {
    std::time::SystemTime::now().duration_since(std::time::UNIX_EPOCH).unwrap().as_millis() as u64
}

/// virtual "now" of a scenario and the timestamp base of its chain (one hour earlier)
pub fn time_base() -> (u64, u64) {
    let now = 1_900_000_000_000u64; // fixed virtual epoch: runs do not depend on the wall clock
    (now, now - 3_600_000)
}

pub fn gen_params(rng: &mut Rng, seed: u64, base_ts: u64) -> ChainParams {
    let dummy = rng.chance(1, 5);
    let (lo, hi) = *rng.pick(&[(3u64, 6u64), (5, 9), (4, 12), (10, 40), (3, 3), (7, 7)]);
    ChainParams {
        seed,
        pow: if dummy { PowKind::Dummy } else { PowKind::Eaglesong },
        epoch_len: (lo, hi),
        base_difficulty: if dummy {
            match rng.below(3) {
                0 => U256::from(1_000_000u64),
                1 => U256::one() << 100usize,
                _ => U256::one() << 190usize,
            }
        } else {
            U256::from(rng.range(2, 40))
        },
        diff_mode: *rng.pick(&[DiffMode::Walk, DiffMode::Walk, DiffMode::Extreme, DiffMode::Fixed]),
        tx_density: *rng.pick(&[0, 20, 40, 70]),
        n_locks: rng.range(2, 8) as usize,
        n_types: rng.range(0, 3) as usize,
        base_ts,
        always_success: false,
        secp: false,
    }
}

/// like gen_params, but a fifth of the chains have an ILLEGAL difficulty history (DiffMode::Jump): mined and provable, yet the sampled end
/// points fail the client's tau check, so the client asks again with the check switched off (RequireRecheck path). Only for workloads
/// whose oracle does not presuppose a legal history (C01, C10, C11, C15 - not C05 / C12's bounded-progress clauses).
pub fn gen_params_with_jumps(rng: &mut Rng, seed: u64, base_ts: u64) -> ChainParams {
    let mut p = gen_params(rng, seed, base_ts);
    if rng.chance(1, 5) {
        p.diff_mode = DiffMode::Jump;
        if p.epoch_len.1 > 12 {
            p.epoch_len = (3, 9); // many epoch switches on short chains
        }
    }
    p
}

pub fn gen_len(rng: &mut Rng) -> u64 {
    match rng.below(10) {
        0 => rng.range(2, 6),
        1..=4 => rng.range(6, 60),
        5..=7 => rng.range(60, 250),
        8 => rng.range(250, 700),
        _ => rng.range(700, 1500),
    }
}

pub fn gen_ccfg(rng: &mut Rng) -> ClientCfg {
    let last_n = *rng.pick(&[1u64, 2, 3, 5, 5, 10, 10, 25, 100]);
    // production relation: the check point interval (2000) is larger than last-N (100), so a fork
    // shallower than last-N can never cross a check point a peer has already reported
    let ivs: Vec<u64> = [4u64, 8, 8, 16, 32, 128, 2000].iter().cloned().filter(|i| *i > last_n).collect();
    ClientCfg {
        last_n,
        cp_interval: *rng.pick(&ivs),
        max_outbound: 1,
        mmr_epoch: 0,
        blocks_in_transit: *rng.pick(&[1usize, 2, 16, 16]),
    }
}

pub fn to_rpc_status(script: &Script, st: ST, n: u64) -> RpcScriptStatus {
    RpcScriptStatus { script: script.clone().into(), script_type: st.rpc(), block_number: n.into() }
}

pub fn set_scripts(w: &World, regs: &Registered, cmd: Option<SetScriptsCommand>) {
    let rpc = w.c().rpc_filter();
    let v: Vec<RpcScriptStatus> = regs.iter().map(|(s, st, n)| to_rpc_status(s, *st, *n)).collect();
    rpc.set_scripts(v, cmd).expect("set_scripts");
}

pub fn get_scripts(w: &World) -> Vec<(Script, ST, u64)> {
    let rpc = w.c().rpc_filter();
    rpc.get_scripts()
        .expect("get_scripts")
        .into_iter()
        .map(|s| {
            let script: Script = s.script.into();
            let st = match s.script_type {
                crate::service::ScriptType::Lock => ST::Lock,
                crate::service::ScriptType::Type => ST::Type,
            };
            (script, st, s.block_number.into())
        })
        .collect()
}

/// pick registered scripts among those that occur on the chain (plus possibly an unused one)
pub fn pick_scripts(rng: &mut Rng, chain: &Chain, max: usize, max_start: u64) -> Registered {
    use super::super::chain::{lock_script, type_script};
    let mut regs: Registered = vec![];
    let n = rng.range(1, max as u64) as usize;
    for _ in 0..n {
        let (script, st) = if chain.params.n_types > 0 && rng.chance(1, 4) {
            (type_script(rng.pick_idx(chain.params.n_types)), ST::Type)
        } else {
            (lock_script(rng.pick_idx(chain.params.n_locks + 1)), ST::Lock)
        };
        if regs.iter().any(|(s, t, _)| s == &script && *t == st) {
            continue;
        }
        let start = if rng.chance(1, 2) { 0 } else { rng.range(0, max_start) };
        regs.push((script, st, start));
    }
    regs
}

/// An honest network on one branch: a main chain plus lagging views of it (peers that are a few
/// blocks behind). Views copy the main chain's blocks, so they are always prefixes of it.
pub struct HonestNet {
    pub main: usize,
    /// (chain index, lag)
    pub views: Vec<(usize, u64)>,
}

impl HonestNet {
    pub fn new(main: usize) -> Self {
        HonestNet { main, views: vec![] }
    }
    pub fn add_view(&mut self, w: &mut World, lag: u64) -> usize {
        let m = &w.chains[self.main];
        let mut v = m.clone();
        v.truncate(m.tip().saturating_sub(lag));
        let ci = w.add_chain(v);
        self.views.push((ci, lag));
        ci
    }
    fn sync_views(&self, w: &mut World, announce: bool) {
        for (ci, lag) in self.views.iter() {
            let target = w.chains[self.main].tip().saturating_sub(*lag);
            let mut grew = false;
            while w.chains[*ci].tip() < target {
                let b = w.chains[self.main].blocks[(w.chains[*ci].tip() + 1) as usize].clone();
                w.chains[*ci].append_block(b);
                grew = true;
            }
            if grew && announce {
                w.announce(*ci);
            }
        }
    }
    /// main chain grows by n blocks; subscribed peers announce
    pub fn grow(&self, w: &mut World, n: u64) {
        // a node pushes every new block to its subscribers, one announcement per block
        for _ in 0..n {
            w.grow_chain(self.main, 1);
            self.sync_views(w, true);
        }
    }
    /// grow without announcements (e.g. while the client is down)
    pub fn grow_silent(&self, w: &mut World, n: u64) {
        w.chains[self.main].grow(n);
        self.sync_views(w, false);
    }
    /// the whole network reorganizes onto a branch forking after block `at`
    pub fn fork(&mut self, w: &mut World, at: u64, new_len_after_at: u64, salt: u64) {
        let f = w.chains[self.main].fork(at, new_len_after_at, salt);
        let old_main = self.main;
        let new_main = w.add_chain(f);
        let mut map: Vec<(usize, usize)> = vec![(old_main, new_main)];
        let mut new_views = vec![];
        for (ci, lag) in self.views.iter() {
            let m = &w.chains[new_main];
            let mut v = m.clone();
            v.truncate(m.tip().saturating_sub(*lag));
            let ni = w.add_chain(v);
            map.push((*ci, ni));
            new_views.push((ni, *lag));
        }
        self.main = new_main;
        self.views = new_views;
        for pi in 0..w.peers.len() {
            if let Some((_, to)) = map.iter().find(|(from, _)| *from == w.peers[pi].chain) {
                w.switch_peer_chain(pi, *to);
            }
        }
    }
    pub fn chains(&self) -> Vec<usize> {
        let mut v = vec![self.main];
        v.extend(self.views.iter().map(|(c, _)| *c));
        v
    }
}

/// Watches the proof requests the client sends after a whole-network fork switch: a request whose start
/// header lies on the new branch (start rebased onto a remembered last-N header) is answered without a
/// reorg section, one whose start is the client's tip on the abandoned branch gets a reorg section.
#[derive(Default)]
pub struct ForkWatch {
    /// (index of the new main chain, fork point)
    pub switched: Option<(usize, u64)>,
    pub rebased_start: bool,
    pub reorg_section_requested: bool,
    /// C09: sample what get_scripts / get_transactions report *inside* a round, right after a BlockFilters message was
    /// handled while matched blocks are still waiting for their download (a round boundary never shows that state)
    pub sample_reported: bool,
    pub sample_tick: u64,
    pub snapshots: Vec<Vec<(ckb_types::packed::Script, ST, u64, Vec<super::super::refidx::TxRec>)>>,
}

impl super::super::world::Hook for ForkWatch {
    fn after_deliver(&mut self, w: &mut World, _pi: usize, m: &super::super::world::Resp, _o: &super::super::world::Outcome) {
        if !self.sample_reported || m.proto != super::super::net::P::Filter || w.client.is_none() || w.dead || self.snapshots.len() >= 6 {
            return;
        }
        self.sample_tick = self.sample_tick.wrapping_mul(6364136223846793005).wrapping_add(1442695040888963407);
        if (self.sample_tick >> 33) % 3 != 0 || !w.matched_pending() {
            return;
        }
        if let Some((main, _)) = self.switched {
            // after a whole-network fork switch the reported numbers are only comparable with the new chain once the client's
            // proven tip is on it
            if w.chains[main].num_of(&w.c().stored_tip().1.calc_header_hash()).is_none() {
                return;
            }
        }
        let rpc = w.c().rpc_filter();
        let snap = get_scripts(w).into_iter().map(|(s, st, n)| { let txs = super::super::refidx::rpc_txs(&rpc, &s, st, 50); (s, st, n, txs) }).collect();
        self.snapshots.push(snap);
    }
    fn on_sent(&mut self, w: &mut World, sent: &super::super::net::Sent) {
        let (main, at) = match self.switched {
            Some(x) => x,
            None => return,
        };
        if super::super::net::P::of(sent.proto) != Some(super::super::net::P::Lc) {
            return;
        }
        if let Ok(m) = ckb_types::packed::LightClientMessageReader::from_compatible_slice(&sent.data) {
            if let ckb_types::packed::LightClientMessageUnionReader::GetLastStateProof(r) = m.to_enum() {
                let c = &w.chains[main];
                let last_on_new = c.num_of(&r.last_hash().to_entity()).map(|n| n > at).unwrap_or(false);
                if !last_on_new {
                    return;
                }
                let start_number: u64 = r.start_number().unpack();
                if c.num_of(&r.start_hash().to_entity()).is_some() {
                    if start_number <= at {
                        self.rebased_start = true;
                    }
                } else {
                    self.reorg_section_requested = true;
                }
            }
        }
    }
}

