//! C11 - per-peer sync state machine follows its diagram for every event order.
//! Offline automaton conformance over observed (state-before, cause, state-after) triples.

use std::collections::{BTreeMap, HashMap, HashSet};

use ckb_network::PeerIndex;
use serde_json::{json, Value};

use ckb_types::prelude::*;

use crate::service::{ChainRpc, TransactionRpc};

use super::super::chain::{lock_script, Chain};
use super::super::refidx::{Registered, ST};
use super::super::net::P;
use super::super::out::{hex, Out, RunCfg};
use super::super::rng::Rng;
use super::super::server::{self, LC};
use super::super::world::{Hook, Label, Outcome, Resp, World};
use super::c01::{state_name, trusted_state};
use super::common::*;

const TIMEOUT_MS: u64 = 60_000;

#[derive(Clone, Debug)]
struct Snap {
    name: String,
    when_sent: Option<u64>,
    last_ts: Option<u64>,
    other_requests: bool,
    /// outstanding GetBlocksProof / GetBlocks / GetTransactionsProof requests of the peer with the virtual time at which
    /// the client handed them to the network (None = the send was not observed)
    others: Vec<(&'static str, Option<u64>)>,
    /// hashes of fetch_header / fetch_transaction calls that are in flight with this peer (named in its outstanding GetBlocksProof /
    /// GetTransactionsProof request and still in the fetch tables)
    inflight_headers: Vec<ckb_types::packed::Byte32>,
    inflight_txs: Vec<ckb_types::packed::Byte32>,
    prove: Option<Vec<u8>>,
}

/// send times of the three "other" request kinds, observed at the network boundary: (peer session, kind) -> virtual ms
#[derive(Default)]
struct ReqTimes(HashMap<(PeerIndex, &'static str), u64>);

fn other_kind(sent: &super::super::net::Sent) -> Option<&'static str> {
    match P::of(sent.proto) {
        Some(P::Lc) => match server::kind_of(P::Lc, &sent.data).as_str() {
            "GetBlocksProof" => Some("GetBlocksProof"),
            "GetTransactionsProof" => Some("GetTransactionsProof"),
            _ => None,
        },
        Some(P::Sync) => match server::kind_of(P::Sync, &sent.data).as_str() {
            "GetBlocks" => Some("GetBlocks"),
            _ => None,
        },
        _ => None,
    }
}

impl ReqTimes {
    fn note(&mut self, sent: &super::super::net::Sent) {
        if let Some(k) = other_kind(sent) {
            self.0.insert((sent.peer, k), sent.at);
        }
    }
    /// messages the client has sent but the scheduler has not routed yet
    fn absorb_outbox(&mut self, w: &World) {
        if let Some(c) = w.client.as_ref() {
            let g = c.log.0.lock().unwrap();
            for s in g.outbox.iter() {
                if let Some(k) = other_kind(s) {
                    self.0.insert((s.peer, k), s.at);
                }
            }
        }
    }
}

fn snap(w: &World, id: PeerIndex, times: &ReqTimes) -> Snap {
    let c = w.c();
    let name = state_name(w, id);
    let mut s = Snap { name, when_sent: None, last_ts: None, other_requests: false, others: vec![], inflight_headers: vec![], inflight_txs: vec![], prove: None };
    if let Some(st) = c.peers.get_state(&id) {
        let txt = format!("{:#}", st);
        if let Some(p) = txt.find("when_sent: ") {
            let rest: String = txt[p + 11..].chars().take_while(|c| c.is_ascii_digit()).collect();
            s.when_sent = rest.parse().ok();
        }
        s.last_ts = st.get_last_state().map(|l| l.update_ts());
    }
    if let Some(p) = c.peers.get_peer(&id) {
        s.other_requests = p.get_blocks_proof_request().is_some() || p.get_blocks_request().is_some() || p.get_txs_proof_request().is_some();
        if let Some(req) = p.get_blocks_proof_request() {
            s.inflight_headers = req.block_hashes().into_iter().map(|h| h.pack()).filter(|h: &ckb_types::packed::Byte32| c.peers.get_header_fetch_info(h).is_some()).collect();
        }
        if let Some(req) = p.get_txs_proof_request() {
            s.inflight_txs = req.tx_hashes().into_iter().map(|h| h.pack()).filter(|h: &ckb_types::packed::Byte32| c.peers.get_tx_fetch_info(h).is_some()).collect();
        }
        for (kind, exists) in [("GetBlocksProof", p.get_blocks_proof_request().is_some()), ("GetBlocks", p.get_blocks_request().is_some()), ("GetTransactionsProof", p.get_txs_proof_request().is_some())] {
            if exists {
                // the send time of a request is read off the outbound message; once sends to this session fail (fault injection: the
                // session is closing) a newer request may exist whose message never reached the boundary - its time is unknown
                let closing = c.log.0.lock().unwrap().failing.contains(&id);
                s.others.push((kind, if closing { None } else { times.0.get(&(id, kind)).cloned() }));
            }
        }
    }
    s.prove = trusted_state(w).0.get(&id.value()).cloned();
    s
}

fn has_ps(name: &str) -> bool {
    matches!(name, "Ready" | "RequestNewLastState" | "RequestNewLastStateProof")
}

/// allowed state names after `cause` from `before` (DESIGN appendix B)
fn allowed(before: &str, cause: &str) -> Vec<&'static str> {
    match cause {
        "connected" => vec!["RequestFirstLastState"],
        "disconnected" => vec!["NoPeer"],
        "SendLastState" => match before {
            "RequestFirstLastState" => vec!["OnlyHasLastState", "RequestFirstLastStateProof", "Ready"],
            // an announcement identical to the previous one is deliberately ignored (no timestamp refresh)
            "RequestNewLastState" => vec!["Ready", "RequestNewLastState"],
            "OnlyHasLastState" => vec!["OnlyHasLastState"],
            "RequestFirstLastStateProof" => vec!["RequestFirstLastStateProof"],
            "Ready" => vec!["Ready"],
            "RequestNewLastStateProof" => vec!["RequestNewLastStateProof"],
            _ => vec![],
        },
        "SendLastStateProof" => match before {
            "RequestFirstLastStateProof" => vec!["RequestFirstLastStateProof", "Ready"],
            "RequestNewLastStateProof" => vec!["RequestNewLastStateProof", "Ready"],
            "NoPeer" => vec!["NoPeer"],
            "Initialized" => vec!["Initialized"],
            "RequestFirstLastState" => vec!["RequestFirstLastState"],
            "OnlyHasLastState" => vec!["OnlyHasLastState"],
            "Ready" => vec!["Ready"],
            "RequestNewLastState" => vec!["RequestNewLastState"],
            _ => vec![],
        },
        "refresh" => match before {
            "Initialized" => vec!["Initialized", "RequestFirstLastState"],
            "RequestFirstLastState" => vec!["RequestFirstLastState"],
            "OnlyHasLastState" => vec!["OnlyHasLastState", "RequestFirstLastStateProof", "Ready"],
            "RequestFirstLastStateProof" => vec!["RequestFirstLastStateProof"],
            "Ready" => vec!["Ready", "RequestNewLastState", "RequestNewLastStateProof"],
            "RequestNewLastState" => vec!["RequestNewLastState"],
            "RequestNewLastStateProof" => vec!["RequestNewLastStateProof"],
            "NoPeer" => vec!["NoPeer"],
            _ => vec![],
        },
        // any other message or timer leaves the state alone
        _ => match before {
            "Initialized" => vec!["Initialized"],
            "RequestFirstLastState" => vec!["RequestFirstLastState"],
            "OnlyHasLastState" => vec!["OnlyHasLastState"],
            "RequestFirstLastStateProof" => vec!["RequestFirstLastStateProof"],
            "Ready" => vec!["Ready"],
            "RequestNewLastState" => vec!["RequestNewLastState"],
            "RequestNewLastStateProof" => vec!["RequestNewLastStateProof"],
            "NoPeer" => vec!["NoPeer"],
            _ => vec![],
        },
    }
}

struct Mon<'a> {
    out: &'a Out,
    k: u64,
    desc: Value,
    before: HashMap<usize, Snap>,
    trace_edges: Vec<String>,
    violated: bool,
}

impl<'a> Mon<'a> {
    fn snapshot_all(&mut self, w: &World, times: &mut ReqTimes) {
        self.before.clear();
        times.absorb_outbox(w);
        for (pi, p) in w.peers.iter().enumerate() {
            self.before.insert(pi, snap(w, p.id, times));
        }
    }
    fn judge(&mut self, w: &World, cause: &str, sender: Option<usize>, o: &Outcome, ids_before: &HashMap<usize, PeerIndex>, times: &ReqTimes) {
        if w.client.is_none() || w.dead {
            return;
        }
        for (pi, b) in self.before.clone().iter() {
            let id = ids_before[pi];
            let a = snap(w, id, times);
            let removed = o.banned.iter().any(|(x, _)| *x == id) || o.disconnected.iter().any(|(x, _)| *x == id);
            let peer_cause = if Some(*pi) == sender || sender.is_none() { cause } else { "other-peers-event" };
            self.out.eval(1);
            let edge = format!("{}|{}|{}", b.name, peer_cause, if removed { "REMOVED".to_string() } else { a.name.clone() });
            self.out.cell(&edge);
            if self.trace_edges.len() < 60 {
                self.trace_edges.push(format!("p{}:{}", pi, edge));
            }
            if self.violated {
                continue;
            }
            if removed {
                // R4: nothing may be left behind
                if a.name != "NoPeer" || w.c().peers.get_peer(&id).is_some() || w.c().peers.get_peers_index().contains(&id) {
                    self.violated = true;
                    self.out.violation("C11.R4", "C11|residue-after-disconnect", json!({"scenario": self.desc, "edge": edge, "edges": self.trace_edges}), self.k);
                }
                // R4 (second half): what the removed peer was fetching is eligible for other peers again
                let eligible_headers = w.c().peers.get_headers_to_fetch();
                let eligible_txs = w.c().peers.get_txs_to_fetch();
                for (what, hashes, eligible) in [("header", &b.inflight_headers, &eligible_headers), ("transaction", &b.inflight_txs, &eligible_txs)] {
                    for h in hashes.iter() {
                        self.out.eval(1);
                        self.out.cell(&format!("in-flight-fetch-of-removed-peer|{}|{}", what, peer_cause));
                        let still_wanted = if what == "header" { w.c().peers.get_header_fetch_info(h).is_some() } else { w.c().peers.get_tx_fetch_info(h).is_some() };
                        if still_wanted && !eligible.contains(h) && !self.violated {
                            self.violated = true;
                            self.out.violation("C11.R4", &format!("C11|in-flight-fetch-not-re-eligible|{}|{}", what, peer_cause),
                                json!({"scenario": self.desc, "edge": edge, "hash": hex(h.as_slice()), "edges": self.trace_edges, "trace": w.trace_vec().into_iter().rev().take(12).collect::<Vec<_>>()}), self.k);
                        }
                    }
                }
                continue;
            }
            let ok = allowed(&b.name, peer_cause).contains(&a.name.as_str());
            if !ok {
                self.violated = true;
                self.out.violation("C11.R1", &format!("C11|illegal-transition|{}", edge), json!({"scenario": self.desc, "edge": edge, "edges": self.trace_edges, "trace": w.trace_vec().into_iter().rev().take(10).collect::<Vec<_>>()}), self.k);
                continue;
            }
            // R2: a prove state is never lost without disconnect; its content changes only by an accepted proof,
            // the child fast path or a copy (i.e. only on the peer's own SendLastState / SendLastStateProof or a refresh tick)
            if has_ps(&b.name) && !has_ps(&a.name) {
                self.violated = true;
                self.out.violation("C11.R2", &format!("C11|prove-state-lost|{}", edge), json!({"scenario": self.desc, "edge": edge, "edges": self.trace_edges}), self.k);
            } else if b.prove != a.prove && !matches!(peer_cause, "SendLastState" | "SendLastStateProof" | "refresh") {
                self.violated = true;
                self.out.violation("C11.R2", &format!("C11|prove-state-changed-without-cause|{}", edge), json!({"scenario": self.desc, "edge": edge, "edges": self.trace_edges}), self.k);
            } else if b.prove != a.prove && peer_cause == "SendLastStateProof" && !b.name.contains("Proof") {
                self.violated = true;
                self.out.violation("C11.R2", &format!("C11|proof-accepted-without-outstanding-request|{}", edge), json!({"scenario": self.desc, "edge": edge, "edges": self.trace_edges}), self.k);
            }
        }
    }
}

/// the peers' answers of some kinds are withheld (an unanswered request), per peer
#[derive(Default)]
struct Withhold {
    kinds: HashMap<usize, HashSet<&'static str>>,
    times: ReqTimes,
}

impl Hook for Withhold {
    fn on_sent(&mut self, _w: &mut World, sent: &super::super::net::Sent) {
        self.times.note(sent);
    }
    fn respond(&mut self, _w: &mut World, pi: usize, _sent: &super::super::net::Sent, honest: Vec<Resp>) -> Vec<Resp> {
        match self.kinds.get(&pi) {
            Some(set) if !set.is_empty() => honest.into_iter().filter(|r| !set.contains(server::kind_of(r.proto, &r.data).as_str())).collect(),
            _ => honest,
        }
    }
}

pub fn run(cfg: &RunCfg, out: &Out) {
    for k in 0..cfg.budget {
        if out.time_up() {
            break;
        }
        if let Some(only) = cfg.only_scenario {
            if k != only {
                continue;
            }
        }
        scenario(cfg.scenario_seed(k), k, out);
    }
}

fn scenario(seed: u64, k: u64, out: &Out) {
    let mut rng = Rng::new(seed);
    let (now, base_ts) = time_base();
    let mut params = gen_params_with_jumps(&mut rng, seed, base_ts);
    // "busy" scenarios: scripts registered on a chain with transactions and fetch_header / fetch_transaction calls, so that
    // GetBlocksProof / GetBlocks / GetTransactionsProof requests exist, some of them never answered
    let busy = rng.chance(1, 2);
    params.tx_density = if busy { 80 } else { 0 };
    let len = rng.range(if busy { 12 } else { 4 }, 60);
    let ccfg = gen_ccfg(&mut rng);
    let main = Chain::generate(params, len);
    let mut w = World::new(main, ccfg.clone(), seed, now);
    w.timer_fast = false;
    if busy {
        let regs: Registered = vec![(lock_script(0), ST::Lock, 0), (lock_script(1), ST::Lock, 0)];
        set_scripts(&w, &regs, None);
    }
    let mut hk = Withhold::default();
    let net = HonestNet::new(0);
    let npeers = rng.range(1, 3) as usize;
    for _ in 0..npeers {
        w.add_peer(0, true);
    }
    let desc = json!({"seed": seed, "scenario": k, "len": len, "last_n": ccfg.last_n, "peers": npeers, "busy": busy});
    let mut mon = Mon { out, k, desc: desc.clone(), before: HashMap::new(), trace_edges: vec![], violated: false };
    let mut last_proof: HashMap<usize, Resp> = HashMap::new();
    let steps = if busy { rng.range(20, 90) } else { rng.range(8, 40) };
    if busy && rng.chance(2, 3) {
        // pipeline prelude (not judged by the automaton): connect and let the real timers run for a while, with one or two kinds of
        // answers withheld by the peers - the client ends up with GetBlocksProof / GetBlocks / GetTransactionsProof requests that were
        // sent at different times and are never answered; the judged random phase then meets their timeouts one by one
        w.connect_all();
        for pi in 0..w.peers.len() {
            let set = hk.kinds.entry(pi).or_default();
            for _ in 0..rng.range(1, 2) {
                set.insert(*rng.pick(&["SendBlocksProof", "SendBlock", "SendBlock", "SendTransactionsProof"]));
            }
        }
        for r in 0..rng.range(8, 45) {
            if w.dead {
                break;
            }
            if r % 7 == 3 {
                net.grow(&mut w, 1);
            }
            if rng.chance(1, 6) {
                let chain = &w.chains[net.main];
                let n = rng.range(1, chain.tip());
                if rng.chance(1, 2) {
                    let h: ckb_types::H256 = chain.blocks[n as usize].hash().unpack();
                    let _ = w.c().rpc_chain().fetch_header(h);
                } else if let Some(tx) = chain.blocks[n as usize].transactions().into_iter().last() {
                    let h: ckb_types::H256 = tx.hash().unpack();
                    let _ = w.c().rpc_tx().fetch_transaction(h);
                }
            }
            w.round(&mut hk);
        }
    }
    for _ in 0..steps {
        if w.dead || mon.violated {
            break;
        }
        let ids: HashMap<usize, PeerIndex> = w.peers.iter().enumerate().map(|(i, p)| (i, p.id)).collect();
        mon.snapshot_all(&w, &mut hk.times);
        let ev = if busy {
            // slower clock, more deliveries and fetch / idle-block ticks: several requests overlap inside one timeout window
            *rng.pick(&[0u64, 1, 2, 3, 4, 4, 4, 5, 6, 6, 7, 9, 9, 9, 9, 9, 9, 12, 12, 13, 13])
        } else {
            rng.below(12)
        };
        // fault injection at the network boundary (1 in 25 events): a peer's session starts closing - sends to it fail and are lost, it
        // sends nothing more; the disconnected callback comes with a later `disconnected` event (or the timeout rule removes the peer)
        let ev = if rng.chance(1, 25) { 14 } else { ev };
        match ev {
            14 => {
                let cands: Vec<usize> = (0..w.peers.len()).filter(|i| w.peers[*i].connected && !w.peers[*i].closing).collect();
                if !cands.is_empty() {
                    let pi = *rng.pick(&cands);
                    w.start_closing(pi);
                    out.cell(&format!("session-closing|{}", mon.before.get(&pi).map(|s| s.name.clone()).unwrap_or_default()));
                }
            }
            0 => {
                let cands: Vec<usize> = (0..w.peers.len()).filter(|i| !w.peers[*i].connected).collect();
                if let Some(pi) = cands.first().cloned() {
                    let o = w.connect(pi);
                    let ids2: HashMap<usize, PeerIndex> = w.peers.iter().enumerate().map(|(i, p)| (i, p.id)).collect();
                    // the new session has a new id: its "before" is NoPeer
                    mon.before.insert(pi, Snap { name: "NoPeer".into(), when_sent: None, last_ts: None, other_requests: false, others: vec![], inflight_headers: vec![], inflight_txs: vec![], prove: None });
                    mon.judge(&w, "connected", Some(pi), &o, &ids2, &hk.times);
                }
            }
            1 => {
                let cands: Vec<usize> = (0..w.peers.len()).filter(|i| w.peers[*i].connected).collect();
                if !cands.is_empty() {
                    let pi = *rng.pick(&cands);
                    let o = w.disconnect(pi);
                    let mut o2 = o.clone();
                    o2.disconnected.push((ids[&pi], "user".into()));
                    mon.judge(&w, "disconnected", Some(pi), &o2, &ids, &hk.times);
                }
            }
            2 | 3 => {
                // refresh tick with the timeout rule
                let now = w.now;
                let expect: Vec<usize> = mon
                    .before
                    .iter()
                    .filter(|(pi, s)| {
                        w.peers[**pi].connected
                            && (s.when_sent.map(|t| now > t + TIMEOUT_MS).unwrap_or(false)
                                || s.last_ts.map(|t| now > t + TIMEOUT_MS).unwrap_or(false)
                                || s.others.iter().any(|(_, t)| t.map(|t| now > t + TIMEOUT_MS).unwrap_or(false)))
                    })
                    .map(|(pi, _)| *pi)
                    .collect();
                let o = w.fire(LC, 0, &mut hk);
                out.eval(1);
                for pi in expect.iter() {
                    let b = &mon.before[pi];
                    let state_due = b.when_sent.map(|t| now > t + TIMEOUT_MS).unwrap_or(false) || b.last_ts.map(|t| now > t + TIMEOUT_MS).unwrap_or(false);
                    let due_kinds: Vec<&str> = b.others.iter().filter(|(_, t)| t.map(|t| now > t + TIMEOUT_MS).unwrap_or(false)).map(|(k, _)| *k).collect();
                    let fresh_kinds: Vec<&str> = b.others.iter().filter(|(_, t)| t.map(|t| now <= t + TIMEOUT_MS).unwrap_or(false)).map(|(k, _)| *k).collect();
                    out.cell(&format!("timeout-due|{}|state-due={}|due={}|not-yet-due={}", b.name, state_due, due_kinds.join("+"), fresh_kinds.join("+")));
                    if !o.disconnected.iter().any(|(x, _)| *x == ids[pi]) && !mon.violated {
                        mon.violated = true;
                        out.violation("C11.R3", &format!("C11|timeout-without-disconnect|{}", mon.before[pi].name), json!({"scenario": desc, "edges": mon.trace_edges, "now": now, "snap": format!("{:?}", mon.before[pi])}), k);
                    }
                }
                for (id, why) in o.disconnected.iter() {
                    if let Some((pi, _)) = ids.iter().find(|(_, x)| *x == id) {
                        // (a request whose send was not observed at the boundary cannot be judged)
                        if !expect.contains(pi) && !mon.before[pi].others.iter().any(|(_, t)| t.is_none()) && !mon.violated {
                            mon.violated = true;
                            out.violation("C11.R3", &format!("C11|disconnect-without-timeout|{}", mon.before[pi].name), json!({"scenario": desc, "why": why, "edges": mon.trace_edges, "now": now, "snap": format!("{:?}", mon.before[pi])}), k);
                        }
                    }
                }
                mon.judge(&w, "refresh", None, &o, &ids, &hk.times);
            }
            4 => {
                let (p, t) = if busy {
                    *rng.pick(&[(LC, 1u64), (LC, 1), (LC, 2), (LC, 2), (P::Filter, 0), (P::Filter, 0), (P::Filter, 1), (P::Filter, 2)])
                } else {
                    *rng.pick(&[(LC, 1u64), (LC, 2), (P::Filter, 0), (P::Filter, 1), (P::Filter, 2)])
                };
                let o = w.fire(p, t, &mut hk);
                mon.judge(&w, "other-timer", None, &o, &ids, &hk.times);
            }
            5 => {
                let dt = if busy { *rng.pick(&[1_000u64, 3_000, 8_000, 9_000, 20_000, 30_000, 30_000]) } else { *rng.pick(&[1_000u64, 8_000, 9_000, 59_000, 61_000, 30_000]) };
                w.advance(dt);
            }
            6 => net.grow(&mut w, rng.range(1, 3)),
            7 => {
                // replay of the last proof this peer sent (stale / duplicate / unsolicited)
                let cands: Vec<usize> = last_proof.keys().cloned().filter(|i| w.peers[*i].connected).collect();
                if !cands.is_empty() {
                    let pi = *rng.pick(&cands);
                    let m = last_proof[&pi].clone();
                    let o = w.deliver(pi, Resp { label: Label::Unjudged, ..m }, &mut hk);
                    mon.judge(&w, "SendLastStateProof", Some(pi), &o, &ids, &hk.times);
                }
            }
            8 => {
                let pi = rng.pick_idx(w.peers.len());
                w.peers[pi].mute = !w.peers[pi].mute;
            }
            12 => {
                // the user asks for a header or a transaction of the chain (fetched with the next fetch tick)
                let chain = &w.chains[net.main];
                let n = rng.range(1, chain.tip());
                if rng.chance(1, 2) {
                    let h: ckb_types::H256 = chain.blocks[n as usize].hash().unpack();
                    let _ = w.c().rpc_chain().fetch_header(h);
                } else if let Some(tx) = chain.blocks[n as usize].transactions().into_iter().last() {
                    let h: ckb_types::H256 = tx.hash().unpack();
                    let _ = w.c().rpc_tx().fetch_transaction(h);
                }
            }
            13 => {
                // a peer stops / resumes answering one kind of request (the request then stays outstanding)
                let pi = rng.pick_idx(w.peers.len());
                let kind = *rng.pick(&["SendBlocksProof", "SendBlock", "SendTransactionsProof"]);
                let set = hk.kinds.entry(pi).or_default();
                if !set.remove(kind) {
                    set.insert(kind);
                }
            }
            _ => {
                // route requests and deliver exactly one queued message
                w.route(&mut hk);
                let ready: Vec<usize> = (0..w.peers.len()).filter(|i| w.peers[*i].connected && !w.peers[*i].inbox.is_empty()).collect();
                if !ready.is_empty() {
                    let pi = *rng.pick(&ready);
                    let m = w.peers[pi].inbox.pop_front().unwrap();
                    let kind = server::kind_of(m.proto, &m.data);
                    if kind == "SendLastStateProof" {
                        last_proof.insert(pi, m.clone());
                    }
                    let o = w.deliver(pi, m, &mut hk);
                    mon.judge(&w, &kind, Some(pi), &o, &ids, &hk.times);
                }
            }
        }
    }
    out.count("scenarios", 1);
    out.sample("scenario", 2, || json!({"scenario": desc, "edges": mon.trace_edges}));
    let _: Option<(BTreeMap<u8, u8>, &dyn Hook)> = None;
    w.close();
}
