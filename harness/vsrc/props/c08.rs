//! C08 - a crash at any storage write loses no script activity and leaves a usable store.
//! Fault enumeration: every write boundary of every generated history is crashed (before_write hook).

use serde_json::{json, Value};
use ckb_types::prelude::*;
use std::cell::RefCell;
use std::rc::Rc;

use crate::service::SetScriptsCommand;

use super::super::chain::{lock_script, type_script, Chain};
use super::super::out::{Out, RunCfg};
use super::super::refidx::{self, Registered, ST};
use super::super::rng::Rng;
use super::super::util::{guarded, CrashHere, Unwound};
use super::super::world::World;
use super::common::*;

pub const R_RECOVER: u64 = 200;

#[derive(Clone, Debug)]
enum Act {
    /// sync until quiescent (set_scripts is issued at quiescent points: mid-sync calls run into the known
    /// set_scripts findings of C09, which would hide what the crash itself does)
    Converge,
    Rounds(u64),
    Grow(u64),
    SetAll(Registered),
    Delete(Registered),
    Restart,
    Fork { depth_back: u64, extra: u64, salt: u64 },
    /// the user asks for a header (or a transaction) of the block `back` below the network's tip; it is fetched by the next ticks
    Fetch { tx: bool, back: u64 },
}

#[derive(Clone, Debug)]
struct History {
    seed: u64,
    len: u64,
    acts: Vec<Act>,
    desc: Value,
}

fn gen_history(seed: u64) -> (History, super::super::chain::ChainParams, super::super::client::ClientCfg) {
    let mut rng = Rng::new(seed);
    let (_now, base_ts) = time_base();
    let mut params = gen_params(&mut rng, seed, base_ts);
    params.tx_density = *rng.pick(&[60, 100]);
    // every script of the universe is active on the chain; the registered ones are drawn from the subset whose index keys
    // cannot continue one another (args [] / [00] / [00 00] alias through the block-number bytes, C13's KF08): histories
    // leave data of unregistered scripts behind, and a prefix search must not reach it
    params.n_locks = 7;
    params.n_types = *rng.pick(&[0usize, 4]);
    // prefix-free as well: a prefix search for args [00] legitimately returns the entries of args [00 ff], including stale
    // ones of the time when that script was not registered (KF26 / KF42)
    const LOCKS: [usize; 3] = [2, 4, 6];
    const TYPES: [usize; 2] = [1, 3];
    let len = rng.range(8, 36);
    let mut ccfg = gen_ccfg(&mut rng);
    ccfg.last_n = *rng.pick(&[3u64, 5, 10, 100]);
    ccfg.cp_interval = *rng.pick(&[4u64, 8, 2000]).max(&(ccfg.last_n + 1));
    let pick_regs = |rng: &mut Rng| -> Registered {
        let mut r: Registered = vec![];
        for _ in 0..rng.range(1, 3) {
            let (s, st) = if params.n_types > 0 && rng.chance(1, 4) { (type_script(*rng.pick(&TYPES)), ST::Type) } else { (lock_script(*rng.pick(&LOCKS)), ST::Lock) };
            if !r.iter().any(|(a, b, _)| a == &s && *b == st) {
                r.push((s, st, 0)); // all start numbers 0: the reference is exact for the whole chain
            }
        }
        r
    };
    let mut acts = vec![Act::SetAll(pick_regs(&mut rng))];
    for _ in 0..rng.range(2, 6) {
        acts.push(Act::Rounds(rng.range(1, 4)));
        let next = match rng.below(12) {
            0 | 1 | 2 => Act::Grow(rng.range(1, 6)),
            3 => Act::SetAll(pick_regs(&mut rng)),
            4 => Act::Restart,
            10 | 11 => Act::Fetch { tx: rng.chance(1, 2), back: rng.range(1, 6) },
            5 | 8 | 9 => Act::Fork { depth_back: rng.range(1, 3), extra: rng.range(1, 3), salt: rng.next_u64() | 1 },
            6 => {
                let mut r = pick_regs(&mut rng);
                r.truncate(1);
                Act::Delete(r)
            }
            _ => Act::Grow(1),
        };
        // half of the set_scripts calls hit a quiescent client, the other half arrive mid-sync (matched blocks pending)
        if matches!(next, Act::SetAll(_) | Act::Delete(_)) && rng.chance(1, 2) {
            acts.push(Act::Converge);
        }
        acts.push(next);
    }
    let desc = json!({"seed": seed, "len": len, "last_n": ccfg.last_n, "cp_interval": ccfg.cp_interval, "pow": format!("{:?}", params.pow),
        "acts": acts.iter().map(|a| match a { Act::SetAll(r) => format!("SetAll({})", r.len()), Act::Delete(r) => format!("Delete({})", r.len()), other => format!("{:?}", other) }).collect::<Vec<_>>()});
    (History { seed, len, acts, desc }, params, ccfg)
}

struct RunResult {
    writes: u64,
    crashed: Option<(u64, &'static str, String)>,
    /// storage.rs function that was about to write when the process died
    crash_op: String,
    restart_panic: Option<String>,
    converged: bool,
    rebased_start: bool,
    /// an honest peer was banned during the run (stale per-peer filter hashes after a fork switch: C05's KF02 family)
    banned: Option<String>,
    /// index of the act during which the crash happened (None: while opening the store)
    crash_act: Option<usize>,
    mismatch: Option<String>,
    /// the scripts ("Lock:<hex>" / "Type:<hex>") whose answers hold the stale entries of a mismatch (phantom cells, entries not on the chain)
    mismatch_scripts: Vec<String>,
    /// at the point of non-convergence the persisted or in-memory matched blocks hold a hash that is not on the network's
    /// current chain (a record of the abandoned branch that survived: the mechanism of KF28 / KF37)
    stale_matched: bool,
    panic: Option<String>,
    sites: Vec<(&'static str, String)>,
    trace: Vec<String>,
    /// real-abort cross-check: was the store left behind by the really aborted child process identical (all keys and
    /// values) to the store of the in-process crash model at the same write?
    abort_store_equal: Option<bool>,
}

/// set in the child process of the real-abort cross-check: the hook ends the process with abort() instead of unwinding
static REAL_ABORT: std::sync::atomic::AtomicBool = std::sync::atomic::AtomicBool::new(false);

fn act_label(a: &Act) -> &'static str {
    match a {
        Act::Rounds(_) | Act::Converge => "sync",
        Act::Grow(_) => "grow",
        Act::SetAll(_) => "rpc:set_scripts(all)",
        Act::Delete(_) => "rpc:set_scripts(delete)",
        Act::Restart => "restart",
        Act::Fork { .. } => "fork",
        Act::Fetch { .. } => "rpc:fetch",
    }
}

fn do_act(w: &mut World, net: &mut HonestNet, a: &Act, hook: &mut ForkWatch) -> Result<(), Unwound> {
    match a {
        Act::Converge => {
            let main = net.main;
            for _ in 0..8 {
                if w.run_until(hook, 12, |w| w.converged_on(main)).is_some() || w.dead {
                    break;
                }
                net.grow(w, 1);
            }
            Ok(())
        }
        Act::Rounds(n) => {
            for _ in 0..*n {
                w.round(hook);
            }
            Ok(())
        }
        Act::Grow(n) => {
            net.grow(w, *n);
            Ok(())
        }
        Act::SetAll(r) => {
            if std::env::var("VERIF_DEBUG").is_ok() && w.client.is_some() {
                eprintln!("DBG SetAll starts={:?} minf={} tip={} chain_tip={} pending={} current={:?}", r.iter().map(|(s, st, n)| (super::super::out::hex(&s.as_slice()[s.as_slice().len() - 6..]), *st as u8, *n)).collect::<Vec<_>>(),
                    w.c().storage.get_min_filtered_block_number(), w.c().storage.get_tip_header().raw().number(), w.chains[net.main].tip(), w.matched_pending(),
                    get_scripts(w).iter().map(|(s, st, n)| (super::super::out::hex(&s.as_slice()[s.as_slice().len() - 6..]), *st as u8, *n)).collect::<Vec<_>>());
            }
            guarded(|| set_scripts(w, r, Some(SetScriptsCommand::All)))
        }
        Act::Delete(r) => guarded(|| set_scripts(w, r, Some(SetScriptsCommand::Delete))),
        Act::Fetch { tx, back } => {
            if w.client.is_none() {
                return Ok(());
            }
            use crate::service::{ChainRpc, TransactionRpc};
            let chain = &w.chains[net.main];
            let n = chain.tip().saturating_sub(*back).max(1);
            let b = &chain.blocks[n as usize];
            let (is_tx, h): (bool, ckb_types::H256) = if *tx { (true, b.transactions().last().map(|t| t.hash()).unwrap_or_else(|| b.hash()).unpack()) } else { (false, b.hash().unpack()) };
            ASKED.with(|a| {
                let mut a = a.borrow_mut();
                if !a.contains(&(is_tx, h.clone())) {
                    a.push((is_tx, h.clone()));
                }
            });
            guarded(|| {
                if is_tx {
                    let _ = w.c().rpc_tx().fetch_transaction(h.clone());
                } else {
                    let _ = w.c().rpc_chain().fetch_header(h.clone());
                }
            })
        }
        Act::Restart => {
            if w.restart().is_err() {
                return Ok(());
            }
            net.grow_silent(w, 1);
            w.connect_all();
            Ok(())
        }
        Act::Fork { depth_back, extra, salt } => {
            // only forks the client can follow: the fork point is one of its remembered headers
            if w.client.is_none() {
                return Ok(());
            }
            w.pump(hook, 10_000);
            if w.dead || w.client.is_none() {
                return Ok(());
            }
            let stored = w.c().storage.get_last_n_headers();
            let main_tip = w.chains[net.main].tip();
            // a finalized check point is at least one interval below the tip of the peer that served it (add_check_points drops the
            // last one of a reply); `cp_interval > last_n` keeps forks among the remembered headers above it only while the client's
            // stored tip is the chain's tip. After a crash + restart the stored headers lag, so the depth is bounded against the
            // chain's tip as well (a reorg deeper than the check point interval - 2000 blocks on mainnet - is outside what the
            // client supports: its finalized check points are final; see DESIGN 10.9)
            let cpi = w.ccfg.cp_interval;
            let cands: Vec<u64> = stored.iter().map(|(n, _)| *n).filter(|n| *n >= 1 && *n < main_tip && main_tip - *n <= cpi).collect();
            // (forks below the filtered height - the rollback then has index entries to delete - were left out while the undetected
            // shallow reorg, KF25, was open; since fix 991948d they are part of the histories)
            if cands.is_empty() {
                net.grow(w, 1);
                return Ok(());
            }
            let at = cands[(cands.len() - 1).saturating_sub(*depth_back as usize)];
            net.fork(w, at, main_tip - at + extra, *salt);
            hook.switched = Some((net.main, at));
            net.grow(w, 1);
            Ok(())
        }
    }
}

thread_local! {
    /// what the user asked for through fetch_header / fetch_transaction during the current run: (is transaction, hash)
    static ASKED: RefCell<Vec<(bool, ckb_types::H256)>> = RefCell::new(vec![]);
}

/// run the history; crash before write number `crash_at` (1-based) if given
fn run_history(h: &History, params: &super::super::chain::ChainParams, ccfg: &super::super::client::ClientCfg, crash_at: Option<u64>) -> RunResult {
    run_history_x(h, params, ccfg, crash_at, None)
}

/// `swap_from`: directory of the store a really aborted child process left behind at the same write; at the crash point the
/// simulated client continues from *that* store
fn run_history_x(h: &History, params: &super::super::chain::ChainParams, ccfg: &super::super::client::ClientCfg, crash_at: Option<u64>, swap_from: Option<&std::path::Path>) -> RunResult {
    let (now, _) = time_base();
    ASKED.with(|a| a.borrow_mut().clear());
    let counter = Rc::new(RefCell::new((0u64, Vec::<(&'static str, String)>::new(), String::from("open"), String::new())));
    let c2 = counter.clone();
    crate::verif_hook::install(Box::new(move |site| {
        if site.starts_with("read:") {
            return; // read-side pause points are not writes
        }
        let mut g = c2.borrow_mut();
        g.0 += 1;
        let during = g.2.clone();
        g.1.push((site, during));
        if Some(g.0) == crash_at {
            if REAL_ABORT.load(std::sync::atomic::Ordering::SeqCst) {
                std::process::abort();
            }
            let k = g.0;
            // which storage operation is interrupted (one backtrace per crash run)
            g.3 = super::super::util::storage_op_from_backtrace();
            drop(g);
            std::panic::panic_any(CrashHere(k, site));
        }
    }));
    let mut res = RunResult { writes: 0, crashed: None, crash_op: String::new(), restart_panic: None, converged: false, rebased_start: false, banned: None, crash_act: None, mismatch: None, mismatch_scripts: vec![], stale_matched: false, panic: None, sites: vec![], trace: vec![], abort_store_equal: None };
    let main = Chain::generate(params.clone(), h.len);
    let mut w = World::new(main, ccfg.clone(), h.seed, now);
    let mut net = HonestNet::new(0);
    w.add_peer(0, true);
    let mut pending_rpc: Option<Act> = None;
    let mut watch = ForkWatch::default();
    let mut i = 0;
    let mut crashed_once = false;
    if !w.dead {
        w.connect_all();
    }
    // final registration according to the script of actions (for the comparison)
    let mut final_regs: Registered = vec![];
    for a in h.acts.iter() {
        match a {
            Act::SetAll(r) => final_regs = r.clone(),
            Act::Delete(r) => final_regs.retain(|(s, st, _)| !r.iter().any(|(a, b, _)| a == s && b == st)),
            _ => {}
        }
    }
    loop {
        if w.dead {
            if w.panics.first().is_some() {
                let (ctx, p) = w.panics[0].clone();
                res.panic = Some(format!("{}: {} at {}", ctx, p.message, p.location));
                if std::env::var("VERIF_DEBUG").is_ok() {
                    eprintln!("DBG PANIC crash_at={:?} {}", crash_at, p.message);
                    for l in w.trace_vec().iter().rev().take(60).rev() {
                        eprintln!("DBG   trace {}", l);
                    }
                }
                break;
            }
            if crashed_once {
                res.panic = Some("died twice".into());
                break;
            }
            // the process died at write k: drop everything, reopen (twice in a row must work), carry on
            crashed_once = true;
            let g = counter.borrow();
            let (site, during) = g.1.last().cloned().unwrap_or(("?", "?".into()));
            res.crashed = Some((g.0, site, during));
            res.crash_op = g.3.clone();
            res.crash_act = if i == 0 { None } else { Some(i - 1) };
            drop(g);
            crate::verif_hook::clear();
            if let Some(src) = swap_from {
                w.client = None; // every handle closed, as after the death of the process
                let d1 = {
                    let st = crate::storage::Storage::new(&w.dir);
                    super::super::client::dump_db(&st)
                };
                let d2 = {
                    let st = crate::storage::Storage::new(src);
                    super::super::client::dump_db(&st)
                };
                res.abort_store_equal = Some(d1 == d2);
                // carry on from the store of the aborted process
                if let Ok(rd) = std::fs::read_dir(&w.dir) {
                    for e in rd.flatten() {
                        let _ = std::fs::remove_file(e.path());
                    }
                }
                if let Ok(rd) = std::fs::read_dir(src) {
                    for e in rd.flatten() {
                        if e.file_name() != "LOCK" && e.path().is_file() {
                            let _ = std::fs::copy(e.path(), w.dir.join(e.file_name()));
                        }
                    }
                }
            }
            for attempt in 0..2 {
                if let Err(p) = w.restart() {
                    res.restart_panic = Some(format!("attempt {}: {} at {}", attempt + 1, p.message, p.location));
                    break;
                }
            }
            if res.restart_panic.is_some() {
                break;
            }
            if std::env::var("VERIF_DEBUG").is_ok() {
                let c = w.c();
                w.log_event(format!("RESTARTED after crash: min_filtered {} earliest {:?} latest {:?} scripts {:?} tip {}", c.storage.get_min_filtered_block_number(),
                    c.storage.get_earliest_matched_blocks().map(|(s, n, v)| (s, n, v.len())), c.storage.get_latest_matched_blocks().map(|(s, n, v)| (s, n, v.len())),
                    c.storage.get_filter_scripts().iter().map(|s| s.block_number).collect::<Vec<_>>(), c.storage.get_tip_header().raw().number()));
            }
            net.grow_silent(&mut w, 1);
            w.connect_all();
            // the user repeats the RPC call that was interrupted
            if let Some(a) = pending_rpc.take() {
                let _ = do_act(&mut w, &mut net, &a, &mut watch);
            }
            if i > 0 && matches!(h.acts[i - 1], Act::Converge) {
                i -= 1; // the quiescent point was not reached: wait for it again
            }
            continue;
        }
        if i >= h.acts.len() {
            break;
        }
        let a = h.acts[i].clone();
        i += 1;
        counter.borrow_mut().2 = act_label(&a).to_string();
        let is_rpc = matches!(a, Act::SetAll(_) | Act::Delete(_));
        match do_act(&mut w, &mut net, &a, &mut watch) {
            Ok(()) => {}
            Err(Unwound::Crash(..)) => {
                w.dead = true;
                if is_rpc {
                    pending_rpc = Some(a);
                }
            }
            Err(Unwound::Panic(p)) => {
                res.panic = Some(format!("{}: {} at {}", act_label(&a), p.message, p.location));
                break;
            }
            Err(Unwound::Abort) => break,
        }
        if w.dead && w.client.is_some() && is_rpc && pending_rpc.is_none() {
            pending_rpc = None;
        }
    }
    {
        let g = counter.borrow();
        res.writes = g.0;
        res.sites = g.1.clone();
    }
    crate::verif_hook::clear();
    if res.panic.is_some() || res.restart_panic.is_some() || w.client.is_none() {
        w.close();
        return res;
    }
    // converge (chain keeps moving) and compare with the reference at the final tip
    net.grow(&mut w, 1);
    let main = net.main;
    for _ in 0..R_RECOVER / 10 {
        if w.run_until(&mut watch, 10, |w| w.converged_on(main)).is_some() {
            res.converged = true;
            break;
        }
        if w.dead {
            break;
        }
        net.grow(&mut w, 1);
        w.connect_all();
    }
    if w.dead {
        if let Some((ctx, p)) = w.panics.first() {
            res.panic = Some(format!("{}: {} at {}", ctx, p.message, p.location));
            if std::env::var("VERIF_DEBUG").is_ok() {
                eprintln!("DBG PANIC crash_at={:?} {}", crash_at, p.message);
                for l in w.trace_vec().iter().rev().take(40).rev() {
                    eprintln!("DBG   trace {}", l);
                }
            }
        }
    } else if res.converged {
        let chain = &w.chains[main];
        let idx = refidx::build(chain, chain.tip());
        let regs: Registered = get_scripts(&w).into_iter().map(|(s, st, _)| (s, st, 0)).collect();
        let want: Vec<_> = final_regs.iter().map(|(s, st, _)| (s.clone(), *st)).collect();
        let have: Vec<_> = regs.iter().map(|(s, st, _)| (s.clone(), *st)).collect();
        if want.iter().any(|x| !have.contains(x)) || have.iter().any(|x| !want.contains(x)) {
            res.mismatch = Some(format!("registered scripts differ: want {} have {}", want.len(), have.len()));
        } else {
            let mut cmp = refidx::compare(&w.c().rpc_filter(), chain, chain.tip(), &regs, &idx);
            // a prefix search also returns the cells of other scripts whose key continues the search key (C13, KF08),
            // among them stale cells of scripts that are no longer registered: only cells owned by the searched script are judged here
            cmp.phantom_cells.retain(|(name, c)| *name == format!("Lock:{}", c.lock) || *name == format!("Type:{}", c.type_));
            if !cmp.ok() && std::env::var("VERIF_DEBUG").is_ok() {
                eprintln!("DBG MISMATCH crash_at={:?} scripts={:?} phantom={:?}", crash_at, get_scripts(&w).iter().map(|(s, st, n)| (super::super::out::hex(&s.as_slice()[s.as_slice().len() - 6..]), *st as u8, *n)).collect::<Vec<_>>(), cmp.phantom_cells.first());
                eprintln!("DBG   bogus={:?} switched={:?} rebased={} reorgreq={}", cmp.bogus_history.iter().take(6).map(|(n, t)| (n[n.len() - 8..].to_string(), t.block, t.io_type)).collect::<Vec<_>>(), watch.switched, watch.rebased_start, watch.reorg_section_requested);
                for (_, t) in cmp.bogus_history.iter().take(3) {
                    let on_new: Vec<(u64, u32)> = chain.txs.iter().filter(|(h, _)| super::super::out::hex(h.as_slice()) == t.tx_hash).map(|(_, (_, b, i))| (*b, *i)).collect();
                    eprintln!("DBG   bogus entry {:?}: the same tx hash on the final chain at {:?}", t, on_new);
                }
                for l in w.trace_vec().iter().filter(|l| l.contains("LastStateProof") || l.contains("BAN") || l.contains("SendBlock(") || l.contains("BlockFilters(")) {
                    eprintln!("DBG   trace {}", l);
                }
                if let Some((_, c)) = cmp.phantom_cells.first() {
                    for (n, b) in chain.blocks.iter().enumerate() {
                        for tx in b.transactions().iter() {
                            for op in tx.input_pts_iter() {
                                if super::super::out::hex(op.tx_hash().as_slice()) == c.tx_hash {
                                    eprintln!("DBG   spent in block {}", n);
                                }
                            }
                        }
                    }
                }
            }
            if !cmp.ok() {
                if std::env::var("VERIF_DEBUG").is_ok() {
                    res.trace = w.trace_vec();
                }
                if cmp.missing_cells.is_empty() && cmp.missing_history.is_empty() && cmp.capacity_mismatch.is_empty() {
                    // only stale data (nothing missing): remember whose
                    res.mismatch_scripts = cmp.phantom_cells.iter().map(|(n, _)| n.clone()).chain(cmp.bogus_history.iter().map(|(n, _)| n.clone())).collect();
                    res.mismatch_scripts.sort();
                    res.mismatch_scripts.dedup();
                }
                res.mismatch = Some(format!(
                    "phantom {} missing_cells {} bogus_history {} missing_history {} capacity {}: first {:?} {:?} {:?}",
                    cmp.phantom_cells.len(), cmp.missing_cells.len(), cmp.bogus_history.len(), cmp.missing_history.len(), cmp.capacity_mismatch.len(),
                    cmp.phantom_cells.first().map(|x| &x.1), cmp.missing_cells.first().map(|x| &x.1), cmp.missing_history.first().map(|x| &x.1)
                ));
            }
        }
    } else {
        res.mismatch = Some(format!("not converged within {} rounds: min_filtered {} chain tip {} pending {} bans {}", R_RECOVER, w.c().storage.get_min_filtered_block_number(), w.chains[main].tip(), w.matched_pending(), w.bans.len()));
        res.trace = w.trace_vec().into_iter().rev().take(30).collect();
        let chain = &w.chains[main];
        let mut hashes: Vec<ckb_types::packed::Byte32> = vec![];
        if let Some((_, _, v)) = w.c().storage.get_earliest_matched_blocks() {
            hashes.extend(v.into_iter().map(|(h, _)| h));
        }
        if let Some((_, _, v)) = w.c().storage.get_latest_matched_blocks() {
            hashes.extend(v.into_iter().map(|(h, _)| h));
        }
        if let Ok(m) = w.c().peers.matched_blocks().read() {
            hashes.extend(m.keys().map(|k| k.pack()));
        }
        res.stale_matched = hashes.iter().any(|h| chain.num_of(h).is_none());
    }
    // the user's fetch calls belong to "the same RPC answers as without the crash": after the recovery every hash that was asked for is
    // asked again - the RPCs must answer (no abort), and a transaction reported as committed / fetched comes with a stored header
    if !w.dead && w.client.is_some() && res.panic.is_none() {
        use crate::service::{ChainRpc, TransactionRpc};
        let asked: Vec<(bool, ckb_types::H256)> = ASKED.with(|a| a.borrow().clone());
        for (is_tx, h) in asked {
            let r = guarded(|| {
                if is_tx {
                    let g = w.c().rpc_tx().get_transaction(h.clone());
                    let _ = w.c().rpc_tx().fetch_transaction(h.clone());
                    g.ok().and_then(|t| serde_json::to_value(&t).ok()).and_then(|v| v["tx_status"]["block_hash"].as_str().map(|s| s.to_string()))
                } else {
                    let _ = w.c().rpc_chain().fetch_header(h.clone());
                    None
                }
            });
            match r {
                Err(super::super::util::Unwound::Panic(p)) => {
                    res.panic = Some(format!("rpc:{}: {} at {}", if is_tx { "get_transaction/fetch_transaction" } else { "fetch_header" }, p.message, p.location));
                    break;
                }
                Ok(Some(bh)) => {
                    let stored = serde_json::from_value::<ckb_types::H256>(serde_json::json!(bh)).ok().and_then(|hh| w.c().rpc_chain().get_header(hh).ok().flatten()).is_some();
                    if !stored && res.mismatch.is_none() {
                        res.mismatch = Some(format!("get_transaction reports a block ({}) whose header is not stored", bh));
                    }
                }
                _ => {}
            }
        }
    }
    res.rebased_start = watch.rebased_start;
    res.banned = w.bans.first().map(|(_, r)| r.split(':').next().unwrap_or("").to_string());
    w.close();
    res
}

/// child process of the real-abort cross-check (VERIF_PROP=C08CHILD): replays history `VERIF_C08_SEED` and really
/// aborts (SIGABRT, no unwinding, no destructors) immediately before storage write `VERIF_C08_K`
pub fn run_child() {
    let seed: u64 = std::env::var("VERIF_C08_SEED").ok().and_then(|s| s.parse().ok()).unwrap_or(0);
    let k: u64 = std::env::var("VERIF_C08_K").ok().and_then(|s| s.parse().ok()).unwrap_or(0);
    let (h, params, ccfg) = gen_history(seed);
    REAL_ABORT.store(true, std::sync::atomic::Ordering::SeqCst);
    let _ = run_history(&h, &params, &ccfg, Some(k));
}

/// runs the child; Some(dir) when it died by a signal (the store is in dir), None when it ended normally (write k not reached)
fn spawn_abort_child(seed: u64, k: u64, tag: u64) -> Option<std::path::PathBuf> {
    use std::os::unix::process::ExitStatusExt;
    let dir = super::super::client::scratch_root().join(format!("abortchild-{}-{}", tag, k));
    let exe = std::env::current_exe().ok()?;
    let st = std::process::Command::new(exe)
        .args(["--exact", "vh::verif_main", "--nocapture", "--test-threads", "1"])
        .env("VERIF_PROP", "C08CHILD")
        .env("VERIF_C08_SEED", seed.to_string())
        .env("VERIF_C08_K", k.to_string())
        .env("VERIF_FIXED_DIR", &dir)
        .env("VERIF_OUT", dir.with_extension("out"))
        .stdout(std::process::Stdio::null())
        .stderr(std::process::Stdio::null())
        .status()
        .ok()?;
    let _ = std::fs::remove_file(dir.with_extension("out"));
    if st.signal().is_some() {
        Some(dir)
    } else {
        let _ = std::fs::remove_dir_all(&dir);
        None
    }
}

pub fn run(cfg: &RunCfg, out: &Out) {
    for k in 0..cfg.budget {
        if out.time_up() {
            break;
        }
        if let Some(only) = cfg.only_scenario {
            if k != only {
                continue;
            }
        }
        let seed = cfg.scenario_seed(k);
        let (h, params, ccfg) = gen_history(seed);
        // crash-free reference run
        let base = run_history(&h, &params, &ccfg, None);
        if base.panic.is_some() || base.mismatch.is_some() || !base.converged {
            out.count("histories_discarded_reference_run_not_clean", 1);
            out.note(&format!("discarded history (crash-free run not clean): {:?} {:?}", base.panic, base.mismatch).chars().take(300).collect::<String>());
            continue;
        }
        out.count("histories", 1);
        out.max("writes_per_history_max", base.writes);
        let w_total = base.writes;
        // crash points: every write once with the in-process crash model, then a sample of them again with a child process
        // that really aborts at that write and whose store the recovery continues from (validation of the crash model)
        let mut arng = super::super::rng::Rng::new(seed ^ 0xab0a7);
        let n_abort = if cfg.tier == "thorough" { 8 } else { 3 };
        let mut points: Vec<(u64, bool)> = (1..=w_total).map(|x| (x, false)).collect();
        for _ in 0..n_abort.min(w_total) {
            points.push((arng.range(1, w_total), true));
        }
        for (kk, real_abort) in points {
            if out.time_up() {
                out.note("time cap reached inside a history: remaining crash points not run");
                break;
            }
            let child_dir = if real_abort {
                match spawn_abort_child(seed, kk, k) {
                    Some(d) => Some(d),
                    None => {
                        out.count("real_abort_child_did_not_reach_the_write", 1);
                        continue;
                    }
                }
            } else {
                None
            };
            let r = run_history_x(&h, &params, &ccfg, Some(kk), child_dir.as_deref());
            if let Some(d) = &child_dir {
                let _ = std::fs::remove_dir_all(d);
                out.count("real_abort_points", 1);
                match r.abort_store_equal {
                    Some(true) => out.count("real_abort_store_identical_to_crash_model", 1),
                    Some(false) => {
                        out.count("real_abort_store_differs_from_crash_model", 1);
                        out.note(&format!("real abort before write {} of history {}: store differs from the in-process crash model (recovery judged on the aborted store)", kk, seed));
                    }
                    None => out.count("real_abort_not_reached_in_process", 1),
                }
            }
            let (site, during) = match &r.crashed {
                Some((_, s, d)) => (*s, d.clone()),
                None => {
                    out.count("crash_points_not_reached", 1);
                    continue;
                }
            };
            out.eval(1);
            out.count("crash_points_run", 1);
            // differential control: the same history with a *clean* restart (all writes of the interrupted act done) at the
            // same act boundary. A mismatch that the clean restart produces as well is not caused by the torn operation:
            // it is one of the restart / fork timing defects decided by C04 / C05 and is only counted here.
            if r.restart_panic.is_none() && r.panic.is_none() && r.mismatch.is_some() {
                let mut acts = h.acts.clone();
                let at = r.crash_act.map(|i| (i + 1).min(acts.len())).unwrap_or(0);
                acts.insert(at, Act::Restart);
                let hc = History { seed: h.seed, len: h.len, acts, desc: h.desc.clone() };
                let c = run_history(&hc, &params, &ccfg, None);
                out.count("control_runs_with_clean_restart", 1);
                if c.mismatch.is_some() || c.panic.is_some() || !c.converged {
                    out.count("mismatch_also_with_clean_restart_at_same_point", 1);
                    out.cell(&format!("{}:{}|{}|not-attributable-to-the-crash", site, r.crash_op, during));
                    continue;
                }
            }
            let forky = if h.acts.iter().any(|a| matches!(a, Act::Fork { .. })) {
                // after the recovery the fork switch was proven through a request whose start had been rebased onto a remembered
                // header (no reorg section, C04's undetected shallow reorg) - or through a request answered with a reorg section
                // a script that was dropped by set_scripts before a fork and registered again after it: the data it left behind
                // is neither purged nor rolled back (KF42)
                let mut reregistered = false;
                // KF42 under shifted timing: a crash that interrupts the fork handling before its rollback is committed leaves the client
                // in the pre-fork state; the rollback then runs later than in the crash-free run - after a set_scripts that has dropped
                // a script - and the script's stale entries come back when a later set_scripts registers it again. Evidence required:
                // the mismatch consists of stale data only, and every script that shows it was dropped by an act after the fork act
                // and registered again by a later one.
                let mut stale_of_scripts_dropped_after_fork = false;
                if !r.mismatch_scripts.is_empty() {
                    let name = |s: &ckb_types::packed::Script, st: &ST| format!("{:?}:{}", st, super::super::out::hex(s.as_slice()));
                    let mut seen_fork = false;
                    let mut current: Vec<String> = vec![];
                    let mut dropped_after_fork: Vec<String> = vec![];
                    let mut back_again: Vec<String> = vec![];
                    for a in h.acts.iter() {
                        match a {
                            Act::SetAll(regs) => {
                                let new: Vec<String> = regs.iter().map(|(s, st, _)| name(s, st)).collect();
                                for x in new.iter() {
                                    if dropped_after_fork.contains(x) {
                                        back_again.push(x.clone());
                                    }
                                }
                                if seen_fork {
                                    for x in current.iter() {
                                        if !new.contains(x) {
                                            dropped_after_fork.push(x.clone());
                                        }
                                    }
                                }
                                current = new;
                            }
                            Act::Delete(regs) => {
                                for (s, st, _) in regs.iter() {
                                    let n = name(s, st);
                                    if let Some(p) = current.iter().position(|x| *x == n) {
                                        current.remove(p);
                                        if seen_fork {
                                            dropped_after_fork.push(n);
                                        }
                                    }
                                }
                            }
                            Act::Fork { .. } => seen_fork = true,
                            _ => {}
                        }
                    }
                    stale_of_scripts_dropped_after_fork = r.mismatch_scripts.iter().all(|n| back_again.contains(n));
                }
                {
                    let mut current: Vec<(ckb_types::packed::Script, ST)> = vec![];
                    let mut dropped_before_fork: Vec<(ckb_types::packed::Script, ST)> = vec![];
                    let mut dropped: Vec<(ckb_types::packed::Script, ST)> = vec![];
                    for a in h.acts.iter() {
                        match a {
                            Act::SetAll(regs) => {
                                let new: Vec<_> = regs.iter().map(|(s, st, _)| (s.clone(), *st)).collect();
                                if new.iter().any(|x| dropped_before_fork.contains(x)) {
                                    reregistered = true;
                                }
                                for x in current.iter() {
                                    if !new.contains(x) {
                                        dropped.push(x.clone());
                                    }
                                }
                                current = new;
                            }
                            Act::Delete(regs) => {
                                for (s, st, _) in regs.iter() {
                                    if let Some(p) = current.iter().position(|x| x.0 == *s && x.1 == *st) {
                                        dropped.push(current.remove(p));
                                    }
                                }
                            }
                            Act::Fork { .. } => dropped_before_fork.extend(dropped.iter().cloned()),
                            _ => {}
                        }
                    }
                }
                if r.rebased_start {
                    "fork-in-history+rebased-start".to_string()
                } else if reregistered {
                    "fork-in-history+script-reregistered-across-fork".to_string()
                } else if stale_of_scripts_dropped_after_fork && site == "batch_commit" && r.crash_op == "rollback_to_block" {
                    "fork-in-history+rollback-interrupted+script-dropped-and-reregistered-before-the-repeated-rollback".to_string()
                } else if let Some(code) = &r.banned {
                    format!("fork-in-history+honest-peer-banned:{}", code)
                } else if r.stale_matched {
                    "fork-in-history+matched-record-of-abandoned-branch".to_string()
                } else {
                    "fork-in-history".to_string()
                }
            } else {
                "no-fork".to_string()
            };
            let outcome = if r.restart_panic.is_some() { "restart-panic" } else if r.panic.is_some() { "panic-after-recovery" } else if r.mismatch.is_some() { "answers-differ" } else { "recovered" };
            out.cell(&format!("{}:{}|{}|{}{}", site, r.crash_op, during, outcome, if real_abort { "|real-abort" } else { "" }));
            let detail = json!({"history": h.desc, "crash_before_write": kk, "of": w_total, "site": site, "storage_operation": r.crash_op, "during": during, "restart_panic": r.restart_panic, "panic": r.panic, "mismatch": r.mismatch, "trace": r.trace,
                "writes_before": r.sites.iter().rev().take(6).map(|(s, d)| format!("{}@{}", s, d)).collect::<Vec<_>>()});
            if let Some(_) = &r.restart_panic {
                // which write sequence was interrupted: previous site -> crashed site
                let prev = r.sites.iter().rev().nth(1).map(|(s, _)| *s).unwrap_or("-");
                out.violation("C08.R1", &format!("C08|restart-panic|during={}|after={}|before={}", during, prev, site), detail, k);
            } else if r.panic.is_some() {
                // where it panicked: "<file>:<normalised message>" taken from the recorded "ctx: message at file:line:col"
                let ptxt = r.panic.clone().unwrap_or_default();
                let file = ptxt.rsplit(" at ").next().unwrap_or("").split(':').next().unwrap_or("").rsplit('/').next().unwrap_or("").to_string();
                let msg = super::super::util::normalize_msg(ptxt.splitn(2, ": ").nth(1).unwrap_or("").split(" at /").next().unwrap_or(""));
                out.violation("C08.R1", &format!("C08|panic-after-recovery|during={}|before={}|{}|{}:{}", during, site, forky, file, msg.split_whitespace().collect::<Vec<_>>().join(" ").chars().take(60).collect::<String>()), detail, k);
            } else if r.mismatch.is_some() {
                let kind = if r.mismatch.as_ref().unwrap().starts_with("not converged") { "no-convergence" } else { "answers-differ" };
                out.violation("C08.R2", &format!("C08|{}|during={}|before={}|{}", kind, during, site, forky), detail, k);
            }
            out.sample(&format!("crash|{}|{}", site, during), 1, || json!({"history": h.desc, "crash_before_write": kk, "of": w_total, "outcome": outcome}));
        }
    }
}
