//! C08 - a crash at any storage write loses no script activity and leaves a usable store.
//! Fault enumeration: every write boundary of every generated history is crashed (before_write hook).

use serde_json::{json, Value};
use std::cell::RefCell;
use std::rc::Rc;

use crate::service::SetScriptsCommand;

use super::super::chain::{lock_script, type_script, Chain};
use super::super::out::{Out, RunCfg};
use super::super::refidx::{self, Registered, ST};
use super::super::rng::Rng;
use super::super::util::{guarded, CrashHere, Unwound};
use super::super::world::{NoHook, World};
use super::common::*;

pub const R_RECOVER: u64 = 200;

#[derive(Clone, Debug)]
enum Act {
    /// sync until quiescent (set_scripts is issued at quiescent points: mid-sync calls run into the known
    /// set_scripts findings of C09, which would hide what the crash itself does)
    Converge,
    Rounds(u64),
    Grow(u64),
    SetAll(Registered),
    Delete(Registered),
    Restart,
    Fork { depth_back: u64, extra: u64, salt: u64 },
}

#[derive(Clone, Debug)]
struct History {
    seed: u64,
    len: u64,
    acts: Vec<Act>,
    desc: Value,
}

fn gen_history(seed: u64) -> (History, super::super::chain::ChainParams, super::super::client::ClientCfg) {
    let mut rng = Rng::new(seed);
    let (_now, base_ts) = time_base();
    let mut params = gen_params(&mut rng, seed, base_ts);
    params.tx_density = *rng.pick(&[60, 100]);
    params.n_locks = rng.range(2, 4) as usize;
    params.n_types = rng.range(0, 2) as usize;
    let len = rng.range(8, 36);
    let mut ccfg = gen_ccfg(&mut rng);
    ccfg.last_n = *rng.pick(&[3u64, 5, 10, 100]);
    ccfg.cp_interval = *rng.pick(&[4u64, 8, 2000]).max(&(ccfg.last_n + 1));
    let pick_regs = |rng: &mut Rng| -> Registered {
        let mut r: Registered = vec![];
        for _ in 0..rng.range(1, 3) {
            let (s, st) = if params.n_types > 0 && rng.chance(1, 4) { (type_script(rng.pick_idx(params.n_types)), ST::Type) } else { (lock_script(rng.pick_idx(params.n_locks)), ST::Lock) };
            if !r.iter().any(|(a, b, _)| a == &s && *b == st) {
                r.push((s, st, 0)); // all start numbers 0: the reference is exact for the whole chain
            }
        }
        r
    };
    let mut acts = vec![Act::SetAll(pick_regs(&mut rng))];
    for _ in 0..rng.range(2, 6) {
        acts.push(Act::Rounds(rng.range(1, 4)));
        let next = match rng.below(8) {
            0 | 1 | 2 => Act::Grow(rng.range(1, 6)),
            3 => Act::SetAll(pick_regs(&mut rng)),
            4 => Act::Restart,
            5 => Act::Fork { depth_back: rng.range(1, 3), extra: rng.range(1, 3), salt: rng.next_u64() | 1 },
            6 => {
                let mut r = pick_regs(&mut rng);
                r.truncate(1);
                Act::Delete(r)
            }
            _ => Act::Grow(1),
        };
        if matches!(next, Act::SetAll(_) | Act::Delete(_)) {
            acts.push(Act::Converge);
        }
        acts.push(next);
    }
    let desc = json!({"seed": seed, "len": len, "last_n": ccfg.last_n, "cp_interval": ccfg.cp_interval, "pow": format!("{:?}", params.pow),
        "acts": acts.iter().map(|a| match a { Act::SetAll(r) => format!("SetAll({})", r.len()), Act::Delete(r) => format!("Delete({})", r.len()), other => format!("{:?}", other) }).collect::<Vec<_>>()});
    (History { seed, len, acts, desc }, params, ccfg)
}

struct RunResult {
    writes: u64,
    crashed: Option<(u64, &'static str, String)>,
    restart_panic: Option<String>,
    converged: bool,
    mismatch: Option<String>,
    panic: Option<String>,
    sites: Vec<(&'static str, String)>,
    trace: Vec<String>,
}

fn act_label(a: &Act) -> &'static str {
    match a {
        Act::Rounds(_) | Act::Converge => "sync",
        Act::Grow(_) => "grow",
        Act::SetAll(_) => "rpc:set_scripts(all)",
        Act::Delete(_) => "rpc:set_scripts(delete)",
        Act::Restart => "restart",
        Act::Fork { .. } => "fork",
    }
}

fn do_act(w: &mut World, net: &mut HonestNet, a: &Act) -> Result<(), Unwound> {
    match a {
        Act::Converge => {
            let main = net.main;
            for _ in 0..8 {
                if w.run_until(&mut NoHook, 12, |w| w.converged_on(main)).is_some() || w.dead {
                    break;
                }
                net.grow(w, 1);
            }
            Ok(())
        }
        Act::Rounds(n) => {
            for _ in 0..*n {
                w.round(&mut NoHook);
            }
            Ok(())
        }
        Act::Grow(n) => {
            net.grow(w, *n);
            Ok(())
        }
        Act::SetAll(r) => guarded(|| set_scripts(w, r, Some(SetScriptsCommand::All))),
        Act::Delete(r) => guarded(|| set_scripts(w, r, Some(SetScriptsCommand::Delete))),
        Act::Restart => {
            if w.restart().is_err() {
                return Ok(());
            }
            net.grow_silent(w, 1);
            w.connect_all();
            Ok(())
        }
        Act::Fork { depth_back, extra, salt } => {
            // only forks the client can follow: the fork point is one of its remembered headers
            if w.client.is_none() {
                return Ok(());
            }
            w.pump(&mut NoHook, 10_000);
            if w.dead || w.client.is_none() {
                return Ok(());
            }
            let stored = w.c().storage.get_last_n_headers();
            let main_tip = w.chains[net.main].tip();
            let cands: Vec<u64> = stored.iter().map(|(n, _)| *n).filter(|n| *n >= 1 && *n < main_tip).collect();
            if cands.is_empty() || w.c().storage.get_min_filtered_block_number() > *cands.iter().min().unwrap() {
                // (a fork below the filtered height runs into the known undetected-shallow-reorg finding of C04)
                net.grow(w, 1);
                return Ok(());
            }
            let at = cands[(cands.len() - 1).saturating_sub(*depth_back as usize)];
            net.fork(w, at, main_tip - at + extra, *salt);
            net.grow(w, 1);
            Ok(())
        }
    }
}

/// run the history; crash before write number `crash_at` (1-based) if given
fn run_history(h: &History, params: &super::super::chain::ChainParams, ccfg: &super::super::client::ClientCfg, crash_at: Option<u64>) -> RunResult {
    let (now, _) = time_base();
    let counter = Rc::new(RefCell::new((0u64, Vec::<(&'static str, String)>::new(), String::from("open"))));
    let c2 = counter.clone();
    crate::verif_hook::install(Box::new(move |site| {
        let mut g = c2.borrow_mut();
        g.0 += 1;
        let during = g.2.clone();
        g.1.push((site, during));
        if Some(g.0) == crash_at {
            let k = g.0;
            drop(g);
            std::panic::panic_any(CrashHere(k, site));
        }
    }));
    let mut res = RunResult { writes: 0, crashed: None, restart_panic: None, converged: false, mismatch: None, panic: None, sites: vec![], trace: vec![] };
    let main = Chain::generate(params.clone(), h.len);
    let mut w = World::new(main, ccfg.clone(), h.seed, now);
    let mut net = HonestNet::new(0);
    w.add_peer(0, true);
    let mut pending_rpc: Option<Act> = None;
    let mut i = 0;
    let mut crashed_once = false;
    if !w.dead {
        w.connect_all();
    }
    // final registration according to the script of actions (for the comparison)
    let mut final_regs: Registered = vec![];
    for a in h.acts.iter() {
        match a {
            Act::SetAll(r) => final_regs = r.clone(),
            Act::Delete(r) => final_regs.retain(|(s, st, _)| !r.iter().any(|(a, b, _)| a == s && b == st)),
            _ => {}
        }
    }
    loop {
        if w.dead {
            if w.panics.first().is_some() {
                let (ctx, p) = w.panics[0].clone();
                res.panic = Some(format!("{}: {} at {}", ctx, p.message, p.location));
                break;
            }
            if crashed_once {
                res.panic = Some("died twice".into());
                break;
            }
            // the process died at write k: drop everything, reopen (twice in a row must work), carry on
            crashed_once = true;
            let g = counter.borrow();
            let (site, during) = g.1.last().cloned().unwrap_or(("?", "?".into()));
            res.crashed = Some((g.0, site, during));
            drop(g);
            crate::verif_hook::clear();
            for attempt in 0..2 {
                if let Err(p) = w.restart() {
                    res.restart_panic = Some(format!("attempt {}: {} at {}", attempt + 1, p.message, p.location));
                    break;
                }
            }
            if res.restart_panic.is_some() {
                break;
            }
            net.grow_silent(&mut w, 1);
            w.connect_all();
            // the user repeats the RPC call that was interrupted
            if let Some(a) = pending_rpc.take() {
                let _ = do_act(&mut w, &mut net, &a);
            }
            if i > 0 && matches!(h.acts[i - 1], Act::Converge) {
                i -= 1; // the quiescent point was not reached: wait for it again
            }
            continue;
        }
        if i >= h.acts.len() {
            break;
        }
        let a = h.acts[i].clone();
        i += 1;
        counter.borrow_mut().2 = act_label(&a).to_string();
        let is_rpc = matches!(a, Act::SetAll(_) | Act::Delete(_));
        match do_act(&mut w, &mut net, &a) {
            Ok(()) => {}
            Err(Unwound::Crash(..)) => {
                w.dead = true;
                if is_rpc {
                    pending_rpc = Some(a);
                }
            }
            Err(Unwound::Panic(p)) => {
                res.panic = Some(format!("{}: {} at {}", act_label(&a), p.message, p.location));
                break;
            }
            Err(Unwound::Abort) => break,
        }
        if w.dead && w.client.is_some() && is_rpc && pending_rpc.is_none() {
            pending_rpc = None;
        }
    }
    {
        let g = counter.borrow();
        res.writes = g.0;
        res.sites = g.1.clone();
    }
    crate::verif_hook::clear();
    if res.panic.is_some() || res.restart_panic.is_some() || w.client.is_none() {
        w.close();
        return res;
    }
    // converge (chain keeps moving) and compare with the reference at the final tip
    net.grow(&mut w, 1);
    let main = net.main;
    for _ in 0..R_RECOVER / 10 {
        if w.run_until(&mut NoHook, 10, |w| w.converged_on(main)).is_some() {
            res.converged = true;
            break;
        }
        if w.dead {
            break;
        }
        net.grow(&mut w, 1);
        w.connect_all();
    }
    if w.dead {
        if let Some((ctx, p)) = w.panics.first() {
            res.panic = Some(format!("{}: {} at {}", ctx, p.message, p.location));
        }
    } else if res.converged {
        let chain = &w.chains[main];
        let idx = refidx::build(chain, chain.tip());
        let regs: Registered = get_scripts(&w).into_iter().map(|(s, st, _)| (s, st, 0)).collect();
        let want: Vec<_> = final_regs.iter().map(|(s, st, _)| (s.clone(), *st)).collect();
        let have: Vec<_> = regs.iter().map(|(s, st, _)| (s.clone(), *st)).collect();
        if want.iter().any(|x| !have.contains(x)) || have.iter().any(|x| !want.contains(x)) {
            res.mismatch = Some(format!("registered scripts differ: want {} have {}", want.len(), have.len()));
        } else {
            let cmp = refidx::compare(&w.c().rpc_filter(), chain, chain.tip(), &regs, &idx);
            if !cmp.ok() {
                res.mismatch = Some(format!(
                    "phantom {} missing_cells {} bogus_history {} missing_history {} capacity {}: first {:?} {:?} {:?}",
                    cmp.phantom_cells.len(), cmp.missing_cells.len(), cmp.bogus_history.len(), cmp.missing_history.len(), cmp.capacity_mismatch.len(),
                    cmp.phantom_cells.first().map(|x| &x.1), cmp.missing_cells.first().map(|x| &x.1), cmp.missing_history.first().map(|x| &x.1)
                ));
            }
        }
    } else {
        res.mismatch = Some(format!("not converged within {} rounds: min_filtered {} chain tip {} pending {} bans {}", R_RECOVER, w.c().storage.get_min_filtered_block_number(), w.chains[main].tip(), w.matched_pending(), w.bans.len()));
        res.trace = w.trace_vec().into_iter().rev().take(30).collect();
    }
    w.close();
    res
}

pub fn run(cfg: &RunCfg, out: &Out) {
    for k in 0..cfg.budget {
        if out.time_up() {
            break;
        }
        if let Some(only) = cfg.only_scenario {
            if k != only {
                continue;
            }
        }
        let seed = cfg.scenario_seed(k);
        let (h, params, ccfg) = gen_history(seed);
        // crash-free reference run
        let base = run_history(&h, &params, &ccfg, None);
        if base.panic.is_some() || base.mismatch.is_some() || !base.converged {
            out.count("histories_discarded_reference_run_not_clean", 1);
            out.note(&format!("discarded history (crash-free run not clean): {:?} {:?}", base.panic, base.mismatch).chars().take(300).collect::<String>());
            continue;
        }
        out.count("histories", 1);
        out.max("writes_per_history_max", base.writes);
        let w_total = base.writes;
        for kk in 1..=w_total {
            if out.time_up() {
                out.note("time cap reached inside a history: remaining crash points not run");
                break;
            }
            let r = run_history(&h, &params, &ccfg, Some(kk));
            let (site, during) = match &r.crashed {
                Some((_, s, d)) => (*s, d.clone()),
                None => {
                    out.count("crash_points_not_reached", 1);
                    continue;
                }
            };
            out.eval(1);
            out.count("crash_points_run", 1);
            let forky = if h.acts.iter().any(|a| matches!(a, Act::Fork { .. })) { "fork-in-history" } else { "no-fork" };
            let outcome = if r.restart_panic.is_some() { "restart-panic" } else if r.panic.is_some() { "panic-after-recovery" } else if r.mismatch.is_some() { "answers-differ" } else { "recovered" };
            out.cell(&format!("{}|{}|{}", site, during, outcome));
            let detail = json!({"history": h.desc, "crash_before_write": kk, "of": w_total, "site": site, "during": during, "restart_panic": r.restart_panic, "panic": r.panic, "mismatch": r.mismatch, "trace": r.trace,
                "writes_before": r.sites.iter().rev().take(6).map(|(s, d)| format!("{}@{}", s, d)).collect::<Vec<_>>()});
            if let Some(_) = &r.restart_panic {
                // which write sequence was interrupted: previous site -> crashed site
                let prev = r.sites.iter().rev().nth(1).map(|(s, _)| *s).unwrap_or("-");
                out.violation("C08.R1", &format!("C08|restart-panic|during={}|after={}|before={}", during, prev, site), detail, k);
            } else if r.panic.is_some() {
                out.violation("C08.R1", &format!("C08|panic-after-recovery|during={}|before={}", during, site), detail, k);
            } else if r.mismatch.is_some() {
                let kind = if r.mismatch.as_ref().unwrap().starts_with("not converged") { "no-convergence" } else { "answers-differ" };
                out.violation("C08.R2", &format!("C08|{}|during={}|before={}|{}", kind, during, site, forky), detail, k);
            }
            out.sample(&format!("crash|{}|{}", site, during), 1, || json!({"history": h.desc, "crash_before_write": kk, "of": w_total, "outcome": outcome}));
        }
    }
}
