//! C12 - the stored tip only moves to heavier proven headers with truthful difficulty.

use std::collections::HashMap;

use ckb_types::{
    packed::{self, Byte32},
    prelude::*,
    U256,
};
use serde_json::json;

use super::super::chain::Chain;
use super::super::mutate;
use super::super::net::P;
use super::super::out::{hex, Out, RunCfg};
use super::super::rng::Rng;
use super::super::server::{self, LC};
use super::super::world::{Hook, Label, Outcome, Resp, World};
use super::common::*;

pub const R_RECOVER: u64 = 60;

struct Mon<'a> {
    out: &'a Out,
    k: u64,
    desc: serde_json::Value,
    last_seen: (U256, Byte32),
    /// fabricated headers: hash -> (true total difficulty, parent hash, number)
    fabricated: HashMap<Byte32, (U256, Byte32, u64)>,
    last_adv_op: String,
    violated: bool,
    moves: u64,
}

impl<'a> Mon<'a> {
    fn truth(&self, w: &World, hash: &Byte32) -> Option<(U256, u64, usize)> {
        for (ci, c) in w.chains.iter().enumerate() {
            if let Some(n) = c.num_of(hash) {
                return Some((c.td(n), n, ci));
            }
        }
        None
    }

    fn check(&mut self, w: &World, cause: &str) {
        if w.client.is_none() || w.dead {
            return;
        }
        let (td, header) = w.c().stored_tip();
        let hash = header.calc_header_hash();
        // the property speaks about what the RPC get_tip_header returns: it must be the stored tip (also get_header of it, if served)
        {
            use crate::service::ChainRpc;
            let rpc = w.c().rpc_chain();
            if let Ok(view) = rpc.get_tip_header() {
                let h: Byte32 = view.hash.pack();
                if h != hash && !self.violated {
                    self.violated = true;
                    self.out.violation("C12.R1", "C12|rpc-tip-differs-from-stored-tip", json!({"scenario": self.desc, "cause": cause, "rpc": hex(h.as_slice()), "stored": hex(hash.as_slice())}), self.k);
                }
            }
        }
        if (td.clone(), hash.clone()) == self.last_seen {
            return;
        }
        let (old_td, _old_hash) = self.last_seen.clone();
        self.last_seen = (td.clone(), hash.clone());
        self.moves += 1;
        self.out.eval(1);
        let number: u64 = header.raw().number().unpack();
        let ctx = json!({"scenario": self.desc, "cause": cause, "last_adversarial_op": self.last_adv_op, "new_tip": number, "new_tip_hash": hex(&hash.as_slice()[..6]),
            "stored_td": format!("{:#x}", td), "old_td": format!("{:#x}", old_td), "trace": w.trace_vec().into_iter().rev().take(16).collect::<Vec<_>>()});
        let opclass = if self.last_adv_op.is_empty() { "none".to_string() } else { self.last_adv_op.clone() };
        self.out.cell(&format!("tip-move|{}|after={}", cause.split(':').next().unwrap_or(""), opclass));
        // R1: proven by some peer right now
        let proven = w.c().peers.get_all_prove_states().iter().any(|(_, ps)| ps.get_last_header().header().hash() == hash);
        if !proven {
            self.violated = true;
            self.out.violation("C12.R1", &format!("C12|tip-not-proven-by-any-peer|after={}", opclass), ctx.clone(), self.k);
        }
        // R2: strictly heavier
        if td <= old_td {
            self.violated = true;
            self.out.violation("C12.R2", &format!("C12|tip-moved-without-more-difficulty|after={}", opclass), ctx.clone(), self.k);
        }
        // R3: truthful total difficulty
        let true_td = match self.truth(w, &hash) {
            Some((t, _, _)) => Some(t),
            None => self.fabricated.get(&hash).map(|(t, _, _)| t.clone()),
        };
        match true_td {
            Some(t) if t == td => {}
            Some(t) => {
                self.violated = true;
                let kind = if self.fabricated.contains_key(&hash) { "fabricated-tip" } else { "real-tip" };
                self.out.violation("C12.R3", &format!("C12|stored-total-difficulty-untruthful|{}|after={}", kind, opclass), {
                    let mut c = ctx.clone();
                    c["true_td"] = json!(format!("{:#x}", t));
                    c
                }, self.k);
            }
            None => {
                self.violated = true;
                self.out.violation("C12.R1", &format!("C12|tip-is-an-unknown-header|after={}", opclass), ctx.clone(), self.k);
            }
        }
        // R4: remembered last-N headers are ancestors of the stored tip
        let anc_chain: Option<(usize, u64)> = match self.truth(w, &hash) {
            Some((_, n, ci)) => Some((ci, n)),
            None => self.fabricated.get(&hash).and_then(|(_, parent, _)| self.truth(w, parent).map(|(_, n, ci)| (ci, n + 1))),
        };
        if let Some((ci, tipn)) = anc_chain {
            for (n, h) in w.c().storage.get_last_n_headers() {
                let ok = n < tipn && w.chains[ci].blocks.get(n as usize).map(|b| b.hash() == h).unwrap_or(false);
                if !ok {
                    self.violated = true;
                    self.out.violation("C12.R4", &format!("C12|last-n-header-not-an-ancestor|after={}", opclass), {
                        let mut c = ctx.clone();
                        c["bad_number"] = json!(n);
                        c
                    }, self.k);
                    break;
                }
            }
        }
    }
}

impl<'a> Hook for Mon<'a> {
    fn after_deliver(&mut self, w: &mut World, _pi: usize, m: &Resp, _o: &Outcome) {
        if let Label::Invalid(op) = &m.label {
            self.last_adv_op = op.clone();
        }
        let kind = server::kind_of(m.proto, &m.data);
        self.check(w, &format!("msg:{}", kind));
    }
    fn after_timer(&mut self, w: &mut World, proto: P, token: u64, _o: &Outcome) {
        self.check(w, &format!("timer:{:?}/{}", proto, token));
    }
}

pub fn run(cfg: &RunCfg, out: &Out) {
    for k in 0..cfg.budget {
        if out.time_up() {
            break;
        }
        if let Some(only) = cfg.only_scenario {
            if k != only {
                continue;
            }
        }
        // a third of the scenarios: honest peers on COMPETING branches that prove in different orders and switch branches
        if k % 3 == 2 {
            competing(cfg.scenario_seed(k), k, out);
        } else {
            scenario(cfg.scenario_seed(k), k, out);
        }
    }
}

/// Several honest peers on two competing branches X and Y (fork point a few blocks below the tips, above / at / below last-N): they are
/// connected and proven in random order, both branches grow by steps of 1..last-N+2 blocks (children: fast path; farther: the proof path
/// whose request starts from a remembered header), peers switch from one branch to the other, the client restarts. Judged online at every
/// change of the stored tip (R1-R4: proven, strictly heavier, truthful total difficulty, remembered last-N headers are ancestors of the tip)
/// and at every restart (R5). No adversary and no convergence judgement here (peer rejection / long forks are C05's and C04's matter).
fn competing(seed: u64, k: u64, out: &Out) {
    let mut rng = Rng::new(seed);
    let (now, base_ts) = time_base();
    let mut params = gen_params(&mut rng, seed, base_ts);
    params.tx_density = 0;
    let mut ccfg = gen_ccfg(&mut rng);
    ccfg.last_n = *rng.pick(&[2u64, 3, 5, 5, 10]);
    ccfg.cp_interval = 2000;
    ccfg.max_outbound = 4;
    let len = rng.range(ccfg.last_n + 6, 90);
    let x = Chain::generate(params.clone(), len);
    let mut w = World::new(x, ccfg.clone(), seed, now);
    let depth = rng.range(1, ccfg.last_n + 3).min(len - 3);
    let at = len - 1 - depth;
    let y_extra = rng.range(1, depth + 3);
    let y = w.chains[0].fork(at, y_extra, rng.next_u64() | 1);
    let cy = w.add_chain(y);
    let n_peers = rng.range(2, 4) as usize;
    for i in 0..n_peers {
        let ci = match i {
            0 => 0,
            1 => cy,
            _ => *rng.pick(&[0usize, cy]),
        };
        w.add_peer(ci, true);
    }
    let desc = json!({"seed": seed, "scenario": k, "family": "competing-branches", "pow": format!("{:?}", params.pow), "len": len, "last_n": ccfg.last_n, "fork_depth": depth, "peers": n_peers});
    let (td0, h0) = w.c().stored_tip();
    let mut mon = Mon { out, k, desc: desc.clone(), last_seen: (td0, h0.calc_header_hash()), fabricated: HashMap::new(), last_adv_op: "competing-branches".into(), violated: false, moves: 0 };
    // connect in random order with a few rounds in between (who proves first decides what is stored)
    let mut order: Vec<usize> = (0..n_peers).collect();
    for i in (1..order.len()).rev() {
        let j = rng.range(0, i as u64) as usize;
        order.swap(i, j);
    }
    for pi in order {
        w.connect(pi);
        for _ in 0..rng.range(0, 4) {
            w.round(&mut mon);
        }
        if w.dead {
            break;
        }
    }
    let steps = rng.range(4, 16);
    for _ in 0..steps {
        if w.dead || w.client.is_none() {
            break;
        }
        match rng.below(10) {
            0 | 1 | 2 => {
                let ci = *rng.pick(&[0usize, cy]);
                let n = rng.range(1, ccfg.last_n + 2);
                // one announcement for the whole step: the new last state is n blocks above the proven one
                w.chains[ci].grow(n);
                w.announce(ci);
                out.cell(&format!("competing|grow|{}", if n == 1 { "child" } else if n <= ccfg.last_n { "within-last-n" } else { "beyond-last-n" }));
            }
            3 | 4 | 5 => {
                // a peer's node reorganizes onto the other branch (it then announces that branch's tip)
                let pi = rng.pick_idx(n_peers);
                let to = if w.peers[pi].chain == 0 { cy } else { 0 };
                let heavier = w.chains[to].td(w.chains[to].tip()) > w.chains[w.peers[pi].chain].td(w.chains[w.peers[pi].chain].tip());
                w.switch_peer_chain(pi, to);
                // often the branch moves on right after the switch: the announcement is a non-child above the peer's proven header
                if rng.chance(1, 2) {
                    let n = rng.range(1, ccfg.last_n);
                    w.chains[to].grow(n);
                    w.announce(to);
                }
                out.cell(&format!("competing|switch|to-{}", if heavier { "heavier" } else { "lighter-or-equal" }));
            }
            6 => {
                let before = (w.c().stored_tip(), w.c().storage.get_last_n_headers());
                if w.restart().is_ok() {
                    let after = (w.c().stored_tip(), w.c().storage.get_last_n_headers());
                    out.eval(1);
                    if before.0 .0 != after.0 .0 || before.0 .1.as_slice() != after.0 .1.as_slice() || before.1 != after.1 {
                        out.violation("C12.R5", "C12|restart-changes-stored-tip", json!({"scenario": desc}), k);
                    }
                    out.cell("competing|restart-reproduces");
                    w.connect_all();
                } else {
                    break;
                }
            }
            7 => {
                let pi = rng.pick_idx(n_peers);
                if w.peers[pi].connected {
                    w.disconnect(pi);
                } else {
                    w.connect(pi);
                }
            }
            _ => {}
        }
        for _ in 0..rng.range(1, 4) {
            w.round(&mut mon);
        }
    }
    if let Some((ctx, p)) = w.panics.first() {
        out.count("competing_aborted_by_panic", 1);
        out.note(&format!("panic in competing-branches scenario (C04 / C05 / C10 matter): {} {}", ctx, p.message.chars().take(80).collect::<String>()));
    }
    out.count("scenarios", 1);
    out.count("competing_branch_scenarios", 1);
    out.count("tip_moves_judged", mon.moves);
    out.count("tip_moves_judged_on_competing_branches", mon.moves);
    w.close();
}

fn scenario(seed: u64, k: u64, out: &Out) {
    let mut rng = Rng::new(seed);
    let (now, base_ts) = time_base();
    let params = gen_params(&mut rng, seed, base_ts);
    let len = gen_len(&mut rng).min(200).max(3);
    let ccfg = gen_ccfg(&mut rng);
    let main = Chain::generate(params.clone(), len);
    let mut w = World::new(main, ccfg.clone(), seed, now);
    let mut net = HonestNet::new(0);
    let n_honest = rng.range(1, 2) as usize;
    for i in 0..n_honest {
        let ci = if i == 0 { 0 } else { net.add_view(&mut w, rng.range(0, 3).min(len - 1)) };
        w.add_peer(ci, true);
    }
    let adv = w.add_peer(0, false);
    let desc = json!({"seed": seed, "scenario": k, "pow": format!("{:?}", params.pow), "len": len, "last_n": ccfg.last_n, "honest_peers": n_honest});
    let (td0, h0) = w.c().stored_tip();
    let mut mon = Mon { out, k, desc: desc.clone(), last_seen: (td0, h0.calc_header_hash()), fabricated: HashMap::new(), last_adv_op: String::new(), violated: false, moves: 0 };
    w.connect_all();
    let conv = w.run_until(&mut mon, 40, |w| w.tip_hash() == w.chains[0].tip_hash());
    if conv.is_none() || w.dead {
        out.count("setup_not_converged", 1);
        w.close();
        return;
    }
    let rounds = rng.range(1, 5);
    for _ in 0..rounds {
        if w.dead || !w.peers[adv].connected {
            break;
        }
        // the adversary must hold a proven state to be taken seriously: let it catch up honestly
        for _ in 0..3 {
            w.round(&mut mon);
        }
        let main_chain = w.chains[net.main].clone();
        let tip = main_chain.tip();
        let op = rng.below(9);
        let mut prelude: Option<packed::VerifiableHeader> = None;
        let (msg, opname): (Option<packed::VerifiableHeader>, String) = match op {
            7 | 8 if tip >= 2 => {
                // two cooperating announcements: first an (unproven) competitor of the proven tip at the same height whose
                // extension commits to an inflated total difficulty, then a child of the *proven* tip whose parent chain root
                // continues the competitor's total difficulty - each message alone is harmless
                let mut below = main_chain.clone();
                below.truncate(tip - 1);
                let inflated = &main_chain.td(tip) * 4u64 + 12345u64;
                let (sib, sib_vh) = mutate::forged_child(&below, Some(inflated.clone()), None, rng.next_u64());
                mon.fabricated.insert(sib.hash(), (&main_chain.td(tip - 1) + &sib.difficulty(), below.tip_hash(), tip));
                let sib_total = &inflated + &sib.difficulty();
                let (b, vh) = mutate::forged_child(&main_chain, Some(sib_total), None, rng.next_u64());
                mon.fabricated.insert(b.hash(), (&main_chain.td(tip) + &b.difficulty(), main_chain.tip_hash(), tip + 1));
                prelude = Some(sib_vh);
                (Some(vh), "forged-child|total_difficulty-continuing-an-unproven-competitor".into())
            }
            0 | 1 | 2 => {
                // forged child: extension commits to a parent chain root with a lie about the total difficulty
                let real = main_chain.td(tip);
                let forged = match rng.below(5) {
                    0 => U256::one() << 250usize,
                    1 => &real + 1u64,
                    2 => if real > U256::one() { &real - 1u64 } else { U256::zero() },
                    3 => U256::zero(),
                    _ => &real * 2u64,
                };
                let (b, vh) = mutate::forged_child(&main_chain, Some(forged), None, rng.next_u64());
                mon.fabricated.insert(b.hash(), (&real + &b.difficulty(), main_chain.tip_hash(), tip + 1));
                (Some(vh), "forged-child|total_difficulty".into())
            }
            3 => {
                let (b, vh) = mutate::forged_child(&main_chain, None, Some(tip + rng.range(1, 1000)), rng.next_u64());
                mon.fabricated.insert(b.hash(), (&main_chain.td(tip) + &b.difficulty(), main_chain.tip_hash(), tip + 1));
                (Some(vh), "forged-child|end_number".into())
            }
            4 => {
                // a real competing block at the same height (equal difficulty competitor)
                if tip < 2 {
                    (None, String::new())
                } else {
                    let f = main_chain.fork(tip - 1, 1, rng.next_u64() | 1);
                    let vh = f.vh(f.tip());
                    w.add_chain(f);
                    (Some(vh), "equal-difficulty-competitor".into())
                }
            }
            5 => {
                // an honest child (the fast path itself) - self mined but truthful
                let (b, vh) = mutate::forged_child(&main_chain, None, None, rng.next_u64());
                mon.fabricated.insert(b.hash(), (&main_chain.td(tip) + &b.difficulty(), main_chain.tip_hash(), tip + 1));
                (Some(vh), "truthful-self-mined-child".into())
            }
            _ => {
                // lighter competitor with a higher number is impossible on one schedule; announce an old block again
                let n = rng.range(1, tip);
                (Some(main_chain.vh(n)), "older-block-announcement".into())
            }
        };
        if let Some(pvh) = prelude {
            let data = server::lc_msg(packed::SendLastState::new_builder().last_header(pvh).build());
            w.deliver(adv, Resp { proto: LC, data, label: Label::Invalid("unproven-competitor-with-inflated-total-difficulty".into()) }, &mut mon);
        }
        if let Some(vh) = msg {
            let data = server::lc_msg(packed::SendLastState::new_builder().last_header(vh).build());
            let label = if opname.starts_with("truthful") || opname.starts_with("older") || opname.starts_with("equal") { Label::Unjudged } else { Label::Invalid(opname.clone()) };
            mon.last_adv_op = opname.clone();
            out.cell(&format!("inject|{}", opname));
            w.deliver(adv, Resp { proto: LC, data, label }, &mut mon);
            for _ in 0..2 {
                w.round(&mut mon);
            }
        }
        // R5: a restart reproduces tip, difficulty and last-N
        if rng.chance(1, 3) && !w.dead {
            let before = (w.c().stored_tip(), w.c().storage.get_last_n_headers());
            if w.restart().is_ok() {
                let after = (w.c().stored_tip(), w.c().storage.get_last_n_headers());
                out.eval(1);
                if before.0 .0 != after.0 .0 || before.0 .1.as_slice() != after.0 .1.as_slice() || before.1 != after.1 {
                    out.violation("C12.R5", "C12|restart-changes-stored-tip", json!({"scenario": desc}), k);
                }
                out.cell("restart-reproduces");
                net.grow_silent(&mut w, 1);
                w.connect_all();
            }
        }
        // R6: honest peers can still move the tip
        if !w.dead {
            // at least two blocks: strictly heavier than any one-block child of the previous honest tip
            net.grow(&mut w, rng.range(2, 5));
            let target = w.chains[net.main].tip_hash();
            let r = w.run_until(&mut mon, R_RECOVER, |w| w.tip_hash() == target);
            out.eval(1);
            match r {
                Some(rr) => {
                    out.max("rounds_to_follow_honest_growth_max", rr);
                    out.cell(&format!("honest-growth-followed|after={}", mon.last_adv_op));
                }
                None => {
                    if !w.dead {
                        out.violation("C12.R6", &format!("C12|tip-frozen|after={}", mon.last_adv_op), json!({"scenario": desc, "stored_td": format!("{:#x}", w.c().stored_tip().0),
                            "honest_tip_td": format!("{:#x}", w.chains[net.main].td(w.chains[net.main].tip())), "trace": w.trace_vec().into_iter().rev().take(16).collect::<Vec<_>>()}), k);
                    }
                    break;
                }
            }
        }
    }
    if let Some((ctx, p)) = w.panics.first() {
        out.count("aborted_by_panic", 1);
        out.note(&format!("panic in scenario (C10 matter): {} {}", ctx, p.message.chars().take(80).collect::<String>()));
    }
    out.count("scenarios", 1);
    out.count("tip_moves_judged", mon.moves);
    out.sample("scenario", 2, || json!({"scenario": desc, "tip_moves": mon.moves}));
    w.close();
}
