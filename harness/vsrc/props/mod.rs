//! One workload + monitor per property.
use super::out::{Out, RunCfg};

pub mod common;
pub mod c01;
pub mod c02;
pub mod c05;
pub mod c06;
pub mod c07;
pub mod c08;
pub mod c10;
pub mod c11;
pub mod c12;
pub mod c13;
pub mod c14;
pub mod c15;
pub mod c16;
pub mod c17;
pub mod c17r;
pub mod c18;
pub mod idx;

pub fn dispatch(prop: &str, cfg: &RunCfg, out: &Out) {
    match prop {
        "C01" => c01::run(cfg, out),
        "C02" => c02::run(cfg, out),
        "C03" => idx::run(idx::Kind::C03, cfg, out),
        "C04" => idx::run(idx::Kind::C04, cfg, out),
        "C05" => c05::run(cfg, out),
        "C06" => c06::run(cfg, out),
        "C07" => c07::run(cfg, out),
        "C08" => c08::run(cfg, out),
        "C08CHILD" => {
            c08::run_child();
            return; // (only reached when the write was not reached) the parent owns the scratch directories
        }
        "C09" => idx::run(idx::Kind::C09, cfg, out),
        "C10" => c10::run(cfg, out),
        "C11" => c11::run(cfg, out),
        "C12" => c12::run(cfg, out),
        "C13" => c13::run(cfg, out),
        "C14" => c14::run(cfg, out),
        "C15" => c15::run(cfg, out),
        "C16" => c16::run(cfg, out),
        "C17" => c17::run(cfg, out),
        "C18" => c18::run(cfg, out),
        // self-test of the sanitizer pipeline (tools/asan_selftest.sh): a deliberate heap use-after-free in harness code
        "SELFTEST_UAF" => {
            let v: Vec<u64> = (0..64u64).collect();
            let p = v.as_ptr();
            drop(v);
            let x = unsafe { std::ptr::read_volatile(p.add(3)) };
            out.note(&format!("read {} from freed memory", x));
        }
        // self-test of the race detector: two threads write one word without synchronisation (harness code only)
        "SELFTEST_RACE" => {
            struct Cell(std::cell::UnsafeCell<u64>);
            unsafe impl Sync for Cell {}
            static SHARED: Cell = Cell(std::cell::UnsafeCell::new(0));
            let hs: Vec<_> = (0..2u64)
                .map(|i| std::thread::spawn(move || for k in 0..1000u64 { unsafe { *SHARED.0.get() = i * 1000 + k } }))
                .collect();
            for h in hs {
                let _ = h.join();
            }
            out.note(&format!("last value {}", unsafe { *SHARED.0.get() }));
        }
        other => out.inconclusive(&format!("no workload for {}", other)),
    }
    super::client::cleanup_scratch();
}
