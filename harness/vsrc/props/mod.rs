//! One workload + monitor per property.
use super::out::{Out, RunCfg};

pub mod common;
pub mod c01;
pub mod c02;
pub mod c05;
pub mod c06;
pub mod c07;
pub mod c08;
pub mod c10;
pub mod c11;
pub mod c12;
pub mod c13;
pub mod c14;
pub mod c15;
pub mod c16;
pub mod c17;
pub mod c17r;
pub mod c18;
pub mod idx;

pub fn dispatch(prop: &str, cfg: &RunCfg, out: &Out) {
    match prop {
        "C01" => c01::run(cfg, out),
        "C02" => c02::run(cfg, out),
        "C03" => idx::run(idx::Kind::C03, cfg, out),
        "C04" => idx::run(idx::Kind::C04, cfg, out),
        "C05" => c05::run(cfg, out),
        "C06" => c06::run(cfg, out),
        "C07" => c07::run(cfg, out),
        "C08" => c08::run(cfg, out),
        "C09" => idx::run(idx::Kind::C09, cfg, out),
        "C10" => c10::run(cfg, out),
        "C11" => c11::run(cfg, out),
        "C12" => c12::run(cfg, out),
        "C13" => c13::run(cfg, out),
        "C14" => c14::run(cfg, out),
        "C15" => c15::run(cfg, out),
        "C16" => c16::run(cfg, out),
        "C17" => c17::run(cfg, out),
        "C18" => c18::run(cfg, out),
        other => out.inconclusive(&format!("no workload for {}", other)),
    }
    super::client::cleanup_scratch();
}
