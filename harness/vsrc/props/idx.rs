//! C03 / C04 / C09 - index correctness against the reference indexer under user actions, fork
//! switches and set_scripts sequences. One scenario runner, three workloads.

use std::collections::BTreeMap;

use ckb_types::{
    packed::{Byte32, Script},
    prelude::*,
    H256,
};
use serde_json::{json, Value};

use crate::service::{ChainRpc, SetScriptsCommand, TransactionRpc};

use super::super::chain::{lock_script, type_script, Chain};
use super::super::out::{hex, Out, RunCfg};
use super::super::refidx::{self, Registered, ST};
use super::super::rng::Rng;
use super::super::world::World;
use super::common::*;

pub const R_CONVERGE: u64 = 250;

#[derive(Clone, Copy, PartialEq, Eq, Debug)]
pub enum Kind {
    C03,
    C04,
    C09,
}

fn skey(s: &Script, st: ST) -> (ST, Vec<u8>) {
    (st, s.as_slice().to_vec())
}

/// README model of set_scripts
fn model_apply(model: &mut BTreeMap<(ST, Vec<u8>), u64>, cmd: &str, regs: &Registered) {
    match cmd {
        "all" => {
            model.clear();
            for (s, st, n) in regs {
                model.insert(skey(s, *st), *n);
            }
        }
        "partial" => {
            for (s, st, n) in regs {
                model.insert(skey(s, *st), *n);
            }
        }
        _ => {
            for (s, st, _) in regs {
                model.remove(&skey(s, *st));
            }
        }
    }
}

fn rpc_cmd(cmd: &str) -> Option<SetScriptsCommand> {
    match cmd {
        "all" => Some(SetScriptsCommand::All),
        "partial" => Some(SetScriptsCommand::Partial),
        _ => Some(SetScriptsCommand::Delete),
    }
}

fn random_script(rng: &mut Rng, chain: &Chain) -> (Script, ST) {
    if chain.params.n_types > 0 && rng.chance(1, 4) {
        (type_script(rng.pick_idx(chain.params.n_types)), ST::Type)
    } else {
        (lock_script(rng.pick_idx(chain.params.n_locks + 1)), ST::Lock)
    }
}

struct Sc<'a> {
    out: &'a Out,
    k: u64,
    kind: Kind,
    prop: &'static str,
    desc: Value,
    actions: Vec<String>,
    /// start number for the completeness judgement per registered script
    starts: BTreeMap<(ST, Vec<u8>), u64>,
    flags: Vec<&'static str>,
    /// scripts that were registered once and dropped by a later set_scripts (all / delete), whether or not they were registered again
    dropped: std::collections::BTreeSet<(ST, Vec<u8>)>,
}

impl<'a> Sc<'a> {
    fn flag(&mut self, f: &'static str) {
        if !self.flags.contains(&f) {
            self.flags.push(f);
        }
    }
    fn flags_str(&self) -> String {
        if self.flags.is_empty() {
            "plain".into()
        } else {
            let mut f = self.flags.clone();
            f.sort();
            f.join("+")
        }
    }
    fn viol(&self, rule: &str, tag: &str, detail: Value, w: &World) {
        self.out.violation(
            rule,
            &format!("{}|{}|{}", self.prop, tag, self.flags_str()),
            json!({"scenario": self.desc, "actions": self.actions, "detail": detail, "trace": w.trace_vec().into_iter().rev().take(if std::env::var("VERIF_TRACE_CAP").is_ok() { 4000 } else { 14 }).collect::<Vec<_>>()}),
            self.k,
        );
    }

    /// compare the RPC answers with the reference index of `chain` at its tip
    fn compare(&mut self, w: &World, ci: usize, when: &str) -> bool {
        let chain = &w.chains[ci];
        let tip = chain.tip();
        let idx = refidx::build(chain, tip);
        let regs: Registered = get_scripts(w)
            .into_iter()
            .map(|(s, st, _n)| {
                let start = self.starts.get(&skey(&s, st)).cloned().unwrap_or(0);
                (s, st, start)
            })
            .collect();
        let rpc = w.c().rpc_filter();
        let cmp = refidx::compare(&rpc, chain, tip, &regs, &idx);
        self.out.eval(cmp.cells_checked + cmp.entries_checked + 1);
        self.out.count("cells_compared", cmp.cells_checked);
        self.out.count("history_entries_compared", cmp.entries_checked);
        let mut ok = true;
        if let Some((name, c)) = cmp.phantom_cells.first() {
            ok = false;
            if std::env::var("VERIF_DEBUG").is_ok() {
                // who spends it on the chain?
                for (n, b) in chain.blocks.iter().enumerate() {
                    for (ti, tx) in b.transactions().iter().enumerate() {
                        for (ii, op) in tx.input_pts_iter().enumerate() {
                            if hex(op.tx_hash().as_slice()) == c.tx_hash && Unpack::<u32>::unpack(&op.index()) == c.index {
                                let stored = crate::storage::Storage::clone(&w.c().storage);
                                use ckb_traits::HeaderProvider;
                                eprintln!("DEBUG phantom {:?}\n  spent by block {} tx {} input {} ; spender block header stored: {} ; min_filtered {} scripts {:?}", c, n, ti, ii,
                                    stored.get_header(&b.hash()).is_some(), stored.get_min_filtered_block_number(),
                                    get_scripts(w).iter().map(|(s, st, n)| (hex(&s.args().raw_data()), *st, *n)).collect::<Vec<_>>());
                                eprintln!("  spender tx outputs: {:?}", tx.outputs().into_iter().map(|o| (hex(&o.lock().args().raw_data()), o.type_().to_opt().map(|t| hex(&t.args().raw_data())))).collect::<Vec<_>>());
                                eprintln!("  filter for block matches? registered hashes vs block filter: n/a");
                            }
                        }
                    }
                }
            }
            // classify: cells at or below the script's start number were indexed as a side effect of a block
            // downloaded for another script; their spends inside the unfiltered range are never seen
            // (a prefix search may return the cells of another registered script: judge by the owning script)
            let owner_start = |c: &refidx::CellRec| -> Option<u64> {
                regs.iter()
                    .filter(|(s, st, _)| match st {
                        ST::Lock => hex(s.as_slice()) == c.lock,
                        ST::Type => hex(s.as_slice()) == c.type_,
                    })
                    .map(|(_, _, start)| *start)
                    .max()
            };
            let below: Vec<_> = cmp.phantom_cells.iter().filter(|(_, c)| owner_start(c).map(|s| c.block <= s).unwrap_or(false)).collect();
            let above: Vec<_> = cmp.phantom_cells.iter().filter(|(_, c)| !owner_start(c).map(|s| c.block <= s).unwrap_or(false)).collect();
            if let Some((name, c)) = below.first() {
                self.viol(&format!("{}.R1", self.prop), "phantom-cell-at-or-below-start-number", json!({"when": when, "script": name, "cell": format!("{:?}", c), "count": below.len()}), w);
            }
            if let Some((name, c)) = above.first() {
                self.viol(&format!("{}.R1", self.prop), "phantom-or-wrong-cell", json!({"when": when, "script": name, "cell": format!("{:?}", c), "count": above.len()}), w);
            }
            let _ = (name, c);
        }
        if let Some((name, c)) = cmp.missing_cells.first() {
            ok = false;
            self.viol(&format!("{}.R2", self.prop), "live-cell-missing", json!({"when": when, "script": name, "cell": format!("{:?}", c), "count": cmp.missing_cells.len()}), w);
        }
        if let Some((name, t)) = cmp.bogus_history.first() {
            ok = false;
            // where does the transaction of the bogus entry occur in the scenario's chains (abandoned branches included)?
            let mut found_in: Vec<String> = vec![];
            for (cix, c) in w.chains.iter().enumerate() {
                for (h, (_, bn, ti)) in c.txs.iter() {
                    if hex(h.as_slice()) == t.tx_hash {
                        found_in.push(format!("chain{}{}:block{}:tx{}", cix, if cix == ci { "(current)" } else { "" }, bn, ti));
                    }
                }
            }
            // mechanism attributes (KF42's mechanism seen through C09's histories): the entry belongs to the abandoned branch of a fork
            // and (a) is owned by another, meanwhile dropped script and reaches this answer through the prefix aliasing of the index keys,
            // or (b) the searched script itself was dropped before the fork rollback and registered again afterwards
            let on_abandoned_branch_only = !found_in.is_empty() && !found_in.iter().any(|f| f.contains("(current)"));
            let searched_hex = name.split(':').nth(1).unwrap_or("").to_string();
            let mut owner_hex: Option<String> = None;
            for c in w.chains.iter() {
                if let Some((tx, _, _)) = c.txs.iter().find(|(h, _)| hex(h.as_slice()) == t.tx_hash).map(|(_, v)| v) {
                    // the cell the entry is about: the output itself, or (for an input entry) the output it spends
                    let cell = if t.io_type == 1 {
                        tx.outputs().get(t.io_index as usize)
                    } else {
                        tx.input_pts_iter().nth(t.io_index as usize).and_then(|op| {
                            w.chains.iter().find_map(|c2| c2.txs.get(&op.tx_hash()).and_then(|(ptx, _, _)| ptx.outputs().get(Unpack::<u32>::unpack(&op.index()) as usize)))
                        })
                    };
                    if let Some(o) = cell {
                        owner_hex = if name.starts_with("Lock") { Some(hex(o.lock().as_slice())) } else { o.type_().to_opt().map(|s| hex(s.as_slice())) };
                    }
                    break;
                }
            }
            let owner_dropped = owner_hex.as_ref().map(|o| self.dropped.iter().any(|(_, raw)| &hex(raw) == o)).unwrap_or(false);
            let searched_dropped_once = self.dropped.iter().any(|(_, raw)| hex(raw) == searched_hex);
            let forked = self.flags.iter().any(|f| *f == "block-1-replaced" || *f == "fork");
            let tag = if forked && on_abandoned_branch_only && owner_hex.as_ref().map(|o| o != &searched_hex).unwrap_or(false) && owner_dropped {
                "history-entry-not-on-chain|entry-of-a-dropped-script-through-prefix-alias|abandoned-branch"
            } else if forked && on_abandoned_branch_only && searched_dropped_once {
                "history-entry-not-on-chain|script-reregistered-across-fork|abandoned-branch"
            } else {
                "history-entry-not-on-chain"
            };
            self.viol(&format!("{}.R1", self.prop), tag, json!({"owner_of_the_entry": owner_hex, "when": when, "script": name, "entry": format!("{:?}", t), "count": cmp.bogus_history.len(), "transaction_occurs_in": found_in,
                "scripts_now": get_scripts(w).iter().map(|(s, st, n)| format!("{:?}:{}@{}", st, hex(s.as_slice()), n)).collect::<Vec<_>>(), "starts": self.starts.iter().map(|(k, v)| format!("{:?}:{}@{}", k.0, hex(&k.1), v)).collect::<Vec<_>>()}), w);
        }
        let pred: Vec<_> = cmp.missing_history.iter().filter(|(_, _, p)| *p).collect();
        let other: Vec<_> = cmp.missing_history.iter().filter(|(_, _, p)| !*p).collect();
        if let Some((name, t, _)) = pred.first() {
            ok = false;
            self.viol(&format!("{}.R2", self.prop), "history-entry-missing|input-spends-cell-created-at-or-before-start", json!({"when": when, "script": name, "entry": format!("{:?}", t), "count": pred.len()}), w);
        }
        if let Some((name, t, _)) = other.first() {
            ok = false;
            self.viol(&format!("{}.R2", self.prop), "history-entry-missing", json!({"when": when, "script": name, "entry": format!("{:?}", t), "count": other.len()}), w);
        }
        if let Some((name, cap, sum)) = cmp.capacity_mismatch.first() {
            ok = false;
            self.viol(&format!("{}.R3", self.prop), "capacity-differs-from-cells", json!({"when": when, "script": name, "capacity": cap, "sum": sum}), w);
        }
        ok
    }

    /// C09.R3 on a snapshot taken inside a round (see ForkWatch::sample_reported)
    fn judge_snapshot(&mut self, w: &World, ci: usize, snap: &[(Script, ST, u64, Vec<refidx::TxRec>)]) {
        let chain = &w.chains[ci];
        let idx = refidx::build(chain, chain.tip());
        for (s, st, n) in snap.iter().map(|(s, st, n, _)| (s, *st, *n)) {
            let start = self.starts.get(&skey(s, st)).cloned().unwrap_or(0);
            if n <= start {
                continue;
            }
            let reported = n;
            let n = n.min(chain.tip());
            let got = &snap.iter().find(|(a, b, _, _)| a == s && *b == st).unwrap().3;
            self.out.eval(1);
            self.out.count("reported_numbers_judged_inside_a_round", 1);
            if let Some(truth) = idx.history.get(&(st, refidx::script_key(s))) {
                for t in truth.iter().filter(|t| t.block > start && t.block <= n) {
                    if !got.contains(t) && t.io_type != 0 {
                        let forked = self.flags.iter().any(|f| *f == "tip-1-start");
                        let tag = if forked && t.block == reported && reported == 1 { "reported-number-ahead-of-index|first-block-removed-by-fork-rollback|matched-blocks-pending" } else { "reported-number-ahead-of-index|matched-blocks-pending" };
                        self.viol("C09.R3", tag, json!({"when": "inside a round, after a BlockFilters message, matched blocks pending", "script": hex(s.as_slice()), "reported": reported, "start": start, "missing": format!("{:?}", t)}), w);
                        return;
                    }
                }
            }
        }
    }

    /// C09.R3: a script reported as filtered up to n has everything in (start, n] indexed
    fn check_reported_numbers(&mut self, w: &World, ci: usize, when: &str) {
        let chain = &w.chains[ci];
        // the reported numbers speak about the chain the client follows: while its proven tip is still on a branch the network has
        // left (fork switch not yet proven to the client), the network's chain is not the yardstick
        if chain.num_of(&w.c().stored_tip().1.calc_header_hash()).is_none() {
            self.out.count("reported_numbers_not_judged_client_tip_on_abandoned_branch", 1);
            return;
        }
        let rpc = w.c().rpc_filter();
        let idx = refidx::build(chain, chain.tip());
        let min_filtered = w.c().storage.get_min_filtered_block_number();
        for (s, st, n) in get_scripts(w) {
            let start = self.starts.get(&skey(&s, st)).cloned().unwrap_or(0);
            if n <= start {
                continue;
            }
            let reported = n;
            let n = n.min(chain.tip());
            let got = refidx::rpc_txs(&rpc, &s, st, 50);
            self.out.eval(1);
            if let Some(truth) = idx.history.get(&(st, refidx::script_key(&s))) {
                for t in truth.iter().filter(|t| t.block > start && t.block <= n) {
                    if !got.contains(t) {
                        // inputs whose previous output predates the start cannot be attributed (separate finding)
                        let predates = t.io_type == 0;
                        if predates {
                            continue;
                        }
                        // mechanism attribute: right after a fork rollback rollback_to_block(r) leaves the scripts at number r (the first
                        // block it removed) and the filter progress at r - 1: only block r itself can be reported-but-not-indexed
                        // (here the only fork is the replacement of block#1: r = 1; the number stays at r until the blocks matched by the
                        // second filter pass are indexed, whatever the filter progress is meanwhile)
                        let forked = self.flags.iter().any(|f| *f == "tip-1-start");
                        let tag = if forked && t.block == reported && reported == 1 { "reported-number-ahead-of-index|first-block-removed-by-fork-rollback" } else { "reported-number-ahead-of-index" };
                        self.viol("C09.R3", tag, json!({"when": when, "script": hex(s.as_slice()), "reported": reported, "min_filtered": min_filtered, "start": start, "missing": format!("{:?}", t)}), w);
                        return;
                    }
                }
            }
        }
    }
}

pub fn run(kind: Kind, cfg: &RunCfg, out: &Out) {
    for k in 0..cfg.budget {
        if out.time_up() {
            break;
        }
        if let Some(only) = cfg.only_scenario {
            if k != only {
                continue;
            }
        }
        scenario(kind, cfg.scenario_seed(k), k, out);
    }
}


fn scenario(kind: Kind, seed: u64, k: u64, out: &Out) {
    let mut rng = Rng::new(seed);
    let (now, base_ts) = time_base();
    let mut params = gen_params(&mut rng, seed, base_ts);
    params.tx_density = *rng.pick(&[40, 70, 100]);
    params.n_locks = rng.range(2, 6) as usize;
    let len_max = if rng.chance(1, 5) { 320 } else { 110 };
    // a tenth of the histories start on a chain that consists of genesis and block#1 only: the client proves tip #1 (no remembered
    // headers below it), then the network grows or replaces block#1 (the client cannot tell and rolls back to block#1 "for safety")
    let tiny = rng.chance(1, 10);
    let len = if tiny { 2 } else { rng.range(12, len_max) };
    let mut ccfg = gen_ccfg(&mut rng);
    if kind == Kind::C04 {
        ccfg.last_n = *rng.pick(&[2u64, 3, 5, 10]);
        ccfg.cp_interval = *rng.pick(&[16u64, 32, 2000]);
    }
    let main = Chain::generate(params.clone(), len);
    let mut w = World::new(main, ccfg.clone(), seed, now);
    let mut net = HonestNet::new(0);
    let npeers = rng.range(1, 2);
    for _ in 0..npeers {
        w.add_peer(0, true);
    }
    let prop = match kind {
        Kind::C03 => "C03",
        Kind::C04 => "C04",
        Kind::C09 => "C09",
    };
    let desc = json!({"seed": seed, "scenario": k, "len": len, "last_n": ccfg.last_n, "cp_interval": ccfg.cp_interval, "pow": format!("{:?}", params.pow), "density": params.tx_density, "peers": npeers});
    let mut sc = Sc { out, k, kind, prop, desc: desc.clone(), actions: vec![], starts: BTreeMap::new(), flags: vec![], dropped: Default::default() };
    let mut model: BTreeMap<(ST, Vec<u8>), u64> = BTreeMap::new();
    // initial registration
    let mut regs: Registered = vec![];
    for _ in 0..rng.range(1, 4) {
        let (s, st) = random_script(&mut rng, &w.chains[0]);
        if regs.iter().any(|(a, b, _)| a == &s && *b == st) {
            continue;
        }
        let start = if rng.chance(1, 2) { 0 } else { rng.range(0, len - 1) };
        regs.push((s, st, start));
    }
    set_scripts(&w, &regs, None);
    model_apply(&mut model, "all", &regs);
    for (s, st, n) in regs.iter() {
        sc.starts.insert(skey(s, *st), *n);
    }
    sc.actions.push(format!("set_scripts(all, {} scripts)", regs.len()));
    w.connect_all();
    let mut hook = ForkWatch::default();
    hook.sample_reported = kind == Kind::C09;
    hook.sample_tick = seed | 1;
    let n_actions = rng.range(1, 6);
    let mut forked = false;
    if tiny {
        // half of them do not wait for the filter sync: block#1 may still be a pending (matched, not yet downloaded) record when the
        // network moves on
        if rng.chance(1, 2) {
            let _ = w.run_until(&mut hook, 12, |w| w.converged_on(0));
        } else {
            let _ = w.run_until(&mut hook, 12, |w| w.tip_hash() == w.chains[0].tip_hash());
            for _ in 0..rng.range(0, 2) {
                w.round(&mut hook);
            }
            if w.matched_pending() {
                sc.flag("matched-pending-at-tip-1");
            }
        }
        sc.flag("tip-1-start");
        if w.dead {
            out.count("tiny_start_dead", 1);
        } else if rng.chance(1, 2) {
            let pending = w.matched_pending();
            net.fork(&mut w, 0, rng.range(2, 14), rng.next_u64() | 1);
            sc.actions.push(format!("block#1 replaced: fork at genesis while the client's tip is #{} (matched pending {})", Unpack::<u64>::unpack(&w.c().storage.get_tip_header().raw().number()), pending));
            sc.flag("block-1-replaced");
            hook.switched = Some((net.main, 0));
            forked = true;
            net.grow(&mut w, 1);
        } else {
            net.grow(&mut w, rng.range(1, 14));
            sc.actions.push("grow after tip #1".into());
        }
    }
    let mut long_fork = false;
    for _ in 0..n_actions {
        // let the sync advance a random number of rounds (often not to completion)
        for _ in 0..rng.range(0, 6) {
            w.round(&mut hook);
        }
        if w.dead {
            break;
        }
        for snap in std::mem::take(&mut hook.snapshots) {
            sc.judge_snapshot(&w, net.main, &snap);
        }
        let action = match kind {
            Kind::C03 => *rng.pick(&["fetch_tx", "fetch_tx", "fetch_header", "restart", "add_script", "grow"]),
            Kind::C04 => *rng.pick(&["fork", "fork", "grow", "restart", "fetch_tx"]),
            Kind::C09 => *rng.pick(&["set_all", "set_partial", "set_partial", "set_delete", "grow", "restart"]),
        };
        // C09 / C03: a third of the user's calls arrive in the middle of a round - timers fired, only a few of the queued
        // messages delivered, requests and answers (BlockFilters, SendBlock, proofs) still in flight when the RPC runs
        let mid_round = match kind {
            Kind::C09 => action.starts_with("set_"),
            // C03: the user's calls (fetch_transaction, fetch_header, a further set_scripts, a restart) interleave with sync steps
            Kind::C03 => action != "grow",
            Kind::C04 => false,
        };
        if mid_round && rng.chance(1, 3) {
            w.round_no += 1;
            w.advance(1000);
            w.fire_due(&mut hook);
            let some = rng.range(0, 6);
            w.pump(&mut hook, some);
            if w.dead {
                break;
            }
            // what the monitor sampled during the half round is judged against the registrations of that moment
            for snap in std::mem::take(&mut hook.snapshots) {
                sc.judge_snapshot(&w, net.main, &snap);
            }
            sc.flag("mid-round");
            sc.actions.push(format!("(half a round: {} messages delivered, the rest in flight)", some));
        }
        match action {
            "grow" => {
                net.grow(&mut w, rng.range(1, 12));
                sc.actions.push("grow".into());
            }
            "restart" => {
                sc.actions.push("restart".into());
                sc.flag("restart");
                if let Err(p) = w.restart() {
                    sc.viol(&format!("{}.R1", prop), &format!("restart-panic|{}", super::super::util::normalize_msg(&p.message)), json!({"panic": p.message}), &w);
                    w.close();
                    return;
                }
                net.grow_silent(&mut w, 1);
                w.connect_all();
            }
            "fetch_tx" => {
                // a transaction of the chain: one that touches a registered script, or any
                let chain = &w.chains[net.main];
                let n = rng.range(1, chain.tip());
                let b = &chain.blocks[n as usize];
                let tx = &b.transactions()[rng.pick_idx(b.transactions().len())];
                let h: H256 = tx.hash().unpack();
                let _ = w.c().rpc_tx().fetch_transaction(h);
                sc.actions.push(format!("fetch_transaction(block {})", n));
                sc.flag("fetch_tx");
            }
            "fetch_header" => {
                let chain = &w.chains[net.main];
                let n = rng.range(1, chain.tip());
                let h: H256 = chain.blocks[n as usize].hash().unpack();
                let _ = w.c().rpc_chain().fetch_header(h);
                sc.actions.push(format!("fetch_header(block {})", n));
                sc.flag("fetch_header");
            }
            "add_script" => {
                let (s, st) = random_script(&mut rng, &w.chains[0]);
                if model.contains_key(&skey(&s, st)) {
                    continue;
                }
                let cur = w.c().storage.get_min_filtered_block_number();
                let start = if rng.chance(1, 2) { cur } else { rng.range(0, w.chains[net.main].tip()) };
                let r: Registered = vec![(s.clone(), st, start)];
                set_scripts(&w, &r, rpc_cmd("partial"));
                model_apply(&mut model, "partial", &r);
                sc.starts.insert(skey(&s, st), start);
                sc.actions.push(format!("set_scripts(partial, new script, start {} vs filtered {})", start, cur));
                sc.flag(if start < cur { "partial-below-progress" } else { "partial-at-or-above-progress" });
            }
            "set_all" | "set_partial" | "set_delete" => {
                let cmd = &action[4..];
                let cur = w.c().storage.get_min_filtered_block_number();
                let mut r: Registered = vec![];
                let n = rng.range(0, 3);
                for _ in 0..n {
                    let (s, st) = if cmd == "delete" && !model.is_empty() && rng.chance(3, 4) {
                        let keys: Vec<_> = model.keys().cloned().collect();
                        let (st, raw) = rng.pick(&keys).clone();
                        (Script::from_slice(&raw).unwrap(), st)
                    } else {
                        random_script(&mut rng, &w.chains[0])
                    };
                    let start = match rng.below(4) {
                        0 => 0,
                        1 => cur,
                        2 => rng.range(0, cur.max(1)),
                        _ => rng.range(cur, w.chains[net.main].tip() + 5),
                    };
                    r.push((s, st, start));
                }
                if rng.chance(1, 6) && !r.is_empty() {
                    let dup = r[0].clone();
                    r.push((dup.0, dup.1, dup.2 + 1)); // duplicate inside one call: the last one wins
                }
                let pending_before = w.matched_pending();
                set_scripts(&w, &r, rpc_cmd(cmd));
                // README model (empty partial / delete lists are no-ops)
                if !(r.is_empty() && cmd != "all") {
                    let before_keys: Vec<_> = model.keys().cloned().collect();
                    model_apply(&mut model, cmd, &r);
                    for key in before_keys {
                        if !model.contains_key(&key) {
                            sc.dropped.insert(key);
                        }
                    }
                    for (s, st, n) in r.iter() {
                        if cmd != "delete" {
                            sc.starts.insert(skey(s, *st), *n);
                        }
                    }
                }
                sc.actions.push(format!("set_scripts({}, {} scripts, filtered {} pending {})", cmd, r.len(), cur, pending_before));
                sc.flag(match cmd {
                    "all" => "set-all",
                    "partial" => "set-partial",
                    _ => "set-delete",
                });
                if r.iter().any(|(_, _, n)| *n < cur) && cmd != "delete" {
                    sc.flag("start-below-progress");
                }
                // C09.R1: script set right after the call
                out.eval(1);
                let got: BTreeMap<(ST, Vec<u8>), u64> = get_scripts(&w).into_iter().map(|(s, st, n)| (skey(&s, st), n)).collect();
                let set_ok = got.keys().collect::<Vec<_>>() == model.keys().collect::<Vec<_>>();
                let numbers_ok = r.iter().all(|(s, st, _)| cmd == "delete" || got.get(&skey(s, *st)) == model.get(&skey(s, *st)));
                out.cell(&format!("set_scripts|{}|n{}|pending={}", cmd, r.len(), pending_before));
                if !set_ok || !numbers_ok {
                    sc.viol("C09.R1", &format!("script-set-differs-from-readme-model|{}", cmd), json!({"got": got.len(), "model": model.len(), "numbers_ok": numbers_ok}), &w);
                }
                // C09.R2: pending matched blocks are discarded
                if !(r.is_empty() && cmd != "all") && w.matched_pending() {
                    sc.viol("C09.R2", &format!("matched-blocks-survive-set_scripts|{}", cmd), json!({}), &w);
                }
            }
            "fork" => {
                if forked {
                    net.grow(&mut w, 1);
                    continue;
                }
                // deliver what is in flight first: the fork depth is judged against what the client knows
                w.pump(&mut hook, 10_000);
                if w.dead {
                    break;
                }
                let stored = w.c().storage.get_last_n_headers();
                let tipn: u64 = w.c().storage.get_tip_header().raw().number().unpack();
                let main_tip = w.chains[net.main].tip();
                if tipn < 3 || main_tip < 4 {
                    continue;
                }
                let deep = rng.chance(1, 8);
                if deep {
                    // a fork that shares none of the remembered headers
                    let lowest = stored.iter().map(|(n, _)| *n).min().unwrap_or(tipn);
                    if lowest < 2 {
                        continue;
                    }
                    let at = rng.range(0, lowest - 1);
                    net.fork(&mut w, at, main_tip - at + rng.range(1, 4), rng.next_u64() | 1);
                    long_fork = true;
                    sc.actions.push(format!("LONG fork at {} (client tip {}, remembered from {})", at, tipn, lowest));
                    sc.flag("long-fork");
                } else {
                    let cands: Vec<u64> = stored.iter().map(|(n, _)| *n).filter(|n| *n >= 1 && *n < main_tip).collect();
                    if cands.is_empty() {
                        continue;
                    }
                    let at = *rng.pick(&cands);
                    // sometimes the user registers one more script (from a lower start) just before the switch:
                    // the filter cursor is then below the fork point while the kept scripts hold data above it
                    if rng.chance(1, 3) {
                        let (s, st) = random_script(&mut rng, &w.chains[0]);
                        if !model.contains_key(&skey(&s, st)) {
                            let start = rng.range(0, at);
                            let r: Registered = vec![(s.clone(), st, start)];
                            set_scripts(&w, &r, rpc_cmd("partial"));
                            model_apply(&mut model, "partial", &r);
                            sc.starts.insert(skey(&s, st), start);
                            sc.actions.push(format!("set_scripts(partial, new script, start {}) right before the fork", start));
                            sc.flag("partial-before-fork");
                        }
                    }
                    let minf = w.c().storage.get_min_filtered_block_number();
                    let pending = w.matched_pending();
                    net.fork(&mut w, at, main_tip - at + rng.range(1, 4), rng.next_u64() | 1);
                    sc.actions.push(format!("fork at {} (client tip {}, main tip {}, min filtered {}, matched pending {})", at, tipn, main_tip, minf, pending));
                    sc.flag("fork");
                    if pending {
                        sc.flag("matched-pending-at-fork");
                    }
                    let max_script_number = get_scripts(&w).iter().map(|(_, _, n)| *n).max().unwrap_or(0);
                    if minf > at || max_script_number > at {
                        sc.flag("filtered-beyond-fork-point");
                    }
                    hook.switched = Some((net.main, at));
                }
                forked = true;
                net.grow(&mut w, 1);
            }
            _ => {}
        }
        if kind == Kind::C09 && rng.chance(1, 3) && !w.dead {
            for _ in 0..rng.range(0, 4) {
                w.round(&mut hook);
            }
            sc.check_reported_numbers(&w, net.main, "mid-sync");
        }
    }
    if hook.rebased_start {
        sc.flag("rebased-start");
    }
    if hook.reorg_section_requested {
        sc.flag("reorg-section-requested");
    }
    if w.dead && !long_fork {
        if let Some((ctx, p)) = w.panics.first() {
            sc.viol(&format!("{}.R1", prop), &p.signature(prop, ctx), json!({"panic": p.message, "at": p.location, "bt": p.backtrace_head}), &w);
        }
        w.close();
        return;
    }
    // long fork: nothing may change before the documented panic
    if long_fork {
        let before = (super::super::client::dump_index(&w.c().storage), w.c().stored_tip().1.calc_header_hash());
        let mut last_ok = true;
        for _ in 0..60 {
            if w.dead {
                break;
            }
            w.round(&mut hook);
            if !w.dead {
                let now_state = (super::super::client::dump_index(&w.c().storage), w.c().stored_tip().1.calc_header_hash());
                if now_state != before {
                    last_ok = false;
                    break;
                }
            }
        }
        out.eval(1);
        out.cell("long-fork");
        if !last_ok {
            sc.viol("C04.R3", "long-fork-adopted-piecemeal", json!({}), &w);
        } else if !w.long_fork_panicked() {
            if let Some((ctx, p)) = w.panics.first() {
                sc.viol("C04.R3", &p.signature("C04", ctx), json!({"panic": p.message}), &w);
            } else {
                out.count("long_fork_no_panic_within_60_rounds", 1);
            }
        } else {
            out.count("long_fork_documented_panic", 1);
        }
        out.count("scenarios", 1);
        w.close();
        return;
    }
    // keep the chain moving (a client exactly at the peers' tip cannot build a request) and converge
    net.grow(&mut w, 1);
    let main = net.main;
    let mut rounds_used = 0;
    let mut conv = false;
    for _ in 0..R_CONVERGE / 10 {
        if w.run_until(&mut hook, 10, |w| w.converged_on(main)).is_some() {
            conv = true;
            break;
        }
        rounds_used += 10;
        if w.dead {
            break;
        }
        // the honest chain keeps growing (avoids the documented 60 s unchanged-last-state disconnect)
        net.grow(&mut w, 1);
        w.connect_all();
    }
    if hook.rebased_start {
        sc.flag("rebased-start");
    }
    if hook.reorg_section_requested {
        sc.flag("reorg-section-requested");
    }
    out.eval(1);
    out.cell(&format!("{}|{}|len{}", prop, sc.flags_str(), super::c05::bucket(len)));
    if w.dead {
        if let Some((ctx, p)) = w.panics.first() {
            sc.viol(&format!("{}.R1", prop), &p.signature(prop, ctx), json!({"panic": p.message, "at": p.location, "bt": p.backtrace_head}), &w);
        }
    } else if !conv {
        let c = w.c();
        let minf = c.storage.get_min_filtered_block_number();
        let tipn: u64 = c.storage.get_tip_header().raw().number().unpack();
        let banned = w.bans.first().map(|(_, r)| r.split(':').next().unwrap_or("").to_string());
        let tag = match &banned {
            Some(code) => format!("no-convergence|honest-peer-banned|{}", code),
            None => "no-convergence|stuck".to_string(),
        };
        sc.viol(&format!("{}.R2", prop), &tag, json!({"rounds": rounds_used, "min_filtered": minf, "client_tip": tipn, "chain_tip": w.chains[main].tip(), "matched_pending": w.matched_pending(), "bans": w.bans.len()}), &w);
    } else {
        out.max("rounds_to_converge_max", w.round_no);
        sc.compare(&w, main, "converged");
        if kind == Kind::C09 {
            sc.check_reported_numbers(&w, main, "converged");
        }
    }
    out.count("scenarios", 1);
    out.sample(&format!("scenario|{}", sc.flags_str()), 1, || json!({"scenario": desc, "actions": sc.actions, "converged": conv}));
    let _ = Byte32::zero();
    w.close();
}
