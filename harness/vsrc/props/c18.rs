//! C18 - send_transaction / relay (workload added later); always-success cell helper.
use ckb_types::{bytes::Bytes, core::{Capacity, ScriptHashType}, packed::{CellOutput, Script}, prelude::*};

pub fn always_success_cell() -> (CellOutput, Bytes, Script) {
    let data: Bytes = Bytes::from(crate::tests::ALWAYS_SUCCESS_BIN.to_vec());
    let cell = CellOutput::new_builder()
        .capacity(Capacity::bytes(data.len() + 200).unwrap().pack())
        .build();
    let script = Script::new_builder()
        .hash_type(ScriptHashType::Data.into())
        .code_hash(CellOutput::calc_data_hash(&data))
        .build();
    (cell, data, script)
}
