//! C18 - send_transaction admits only verifiable transactions; relays once per peer.

use std::collections::{HashMap, HashSet, VecDeque};

use ckb_network::{bytes::Bytes as P2pBytes, multiaddr::MultiAddr, CKBProtocolHandler, Peer, PeerId, PeerIndex, SessionType};
use ckb_types::{
    bytes::Bytes,
    core::{Capacity, DepType, ScriptHashType, TransactionBuilder, TransactionView},
    packed::{self, Byte32, CellDep, CellInput, CellOutput, OutPoint, Script},
    prelude::*,
    H256,
};
use serde_json::{json, Value};

use crate::service::{ChainRpc, TransactionRpc};

use super::super::chain::{Chain, DiffMode, PowKind};
use super::super::net::P;
use super::super::out::{hex, Out, RunCfg};
use super::super::refidx::{self, ST};
use super::super::rng::Rng;
use super::super::util::{guarded, Unwound};
use super::super::world::{NoHook, World};
use super::common::*;

pub fn always_success_cell() -> (CellOutput, Bytes, Script) {
    let data: Bytes = Bytes::from(crate::tests::ALWAYS_SUCCESS_BIN.to_vec());
    let cell = CellOutput::new_builder().capacity(Capacity::bytes(data.len() + 200).unwrap().pack()).build();
    let script = Script::new_builder().hash_type(ScriptHashType::Data.into()).code_hash(CellOutput::calc_data_hash(&data)).build();
    (cell, data, script)
}

#[derive(Clone)]
struct Spendable {
    op: OutPoint,
    capacity: u64,
    mature: bool,
    /// locked by the real secp256k1_blake160_sighash_all script (key 0): spending it needs a valid signature
    secp: bool,
    /// block that committed the cell; None = output of a pending (not committed) transaction
    created: Option<u64>,
}

/// Sign `tx` for its secp-locked inputs (`secp_inputs[i]` tells whether input i is one; all of them share one lock, hence one
/// script group): the sighash_all message is blake2b(tx hash | len, witness of the group's first input with a zeroed 65-byte lock
/// field | len, witness of every other input of the group | len, witness of every index beyond the inputs), the recoverable
/// signature goes into WitnessArgs.lock of the first input of the group. Written from the system script's documentation.
fn sign_tx(tx: &TransactionView, secp_inputs: &[bool], key: u8) -> TransactionView {
    let n = tx.inputs().len();
    let first = match secp_inputs.iter().position(|x| *x) {
        Some(i) => i,
        None => return tx.clone(),
    };
    let mut wits: Vec<Bytes> = tx.witnesses().into_iter().map(|w| w.raw_data()).collect();
    while wits.len() < n {
        wits.push(Bytes::new());
    }
    let zero = packed::WitnessArgs::new_builder().lock(Some(Bytes::from(vec![0u8; 65])).pack()).build();
    wits[first] = zero.as_bytes();
    let mut h = ckb_hash::new_blake2b();
    h.update(tx.hash().as_slice());
    let mut feed = |w: &Bytes| {
        h.update(&(w.len() as u64).to_le_bytes());
        h.update(w);
    };
    feed(&wits[first]);
    for i in (first + 1)..n {
        if secp_inputs.get(i).cloned().unwrap_or(false) {
            feed(&wits[i]);
        }
    }
    for w in wits.iter().skip(n) {
        feed(w);
    }
    let mut msg = [0u8; 32];
    h.finalize(&mut msg);
    let sig = super::super::chain::secp_privkey(key).sign_recoverable(&H256::from(msg)).expect("sign").serialize();
    wits[first] = zero.as_builder().lock(Some(Bytes::from(sig)).pack()).build().as_bytes();
    tx.as_advanced_builder().set_witnesses(wits.into_iter().map(|w| w.pack()).collect()).build()
}

/// which inputs of `tx` spend secp-locked cells (looked up in what the generator handed out)
fn secp_flags(tx: &TransactionView, secp_ops: &HashSet<OutPoint>) -> Vec<bool> {
    tx.inputs().into_iter().map(|i| secp_ops.contains(&i.previous_output())).collect()
}

pub fn run(cfg: &RunCfg, out: &Out) {
    for k in 0..cfg.budget {
        if out.time_up() {
            break;
        }
        if let Some(only) = cfg.only_scenario {
            if k != only {
                continue;
            }
        }
        scenario(cfg.scenario_seed(k), k, out);
    }
}

fn base_tx(rng: &mut Rng, pool: &mut Vec<Spendable>, dep: &CellDep, secp_deps: &Option<(CellDep, CellDep)>, lock: &Script, n_in: usize) -> Option<(TransactionView, u64, bool, Vec<bool>, Vec<Option<u64>>)> {
    if pool.len() < n_in {
        return None;
    }
    let mut b = TransactionBuilder::default().cell_dep(dep.clone());
    let mut total = 0u64;
    let mut mature = true;
    let mut flags = vec![];
    let mut created = vec![];
    for _ in 0..n_in {
        let i = rng.pick_idx(pool.len());
        let s = pool.remove(i);
        total += s.capacity;
        mature &= s.mature;
        flags.push(s.secp);
        created.push(s.created);
        b = b.input(CellInput::new(s.op, 0));
    }
    if let (true, Some((code, data))) = (flags.iter().any(|x| *x), secp_deps) {
        b = b.cell_dep(code.clone()).cell_dep(data.clone());
    }
    let fee = 1000 + rng.below(1000);
    let occupied = 61_0000_0000u64;
    let mut n_out = rng.range(1, 2);
    if (total - fee) / n_out < occupied {
        n_out = 1;
    }
    let each = (total - fee) / n_out;
    if each < occupied {
        return None;
    }
    for _ in 0..n_out {
        // outputs go back to the always-success lock or (when deployed) to the secp lock
        let l = if secp_deps.is_some() && rng.chance(1, 2) { super::super::chain::secp_lock(0) } else { lock.clone() };
        b = b.output(CellOutput::new_builder().capacity(Capacity::shannons(each).pack()).lock(l).build()).output_data(Bytes::new().pack());
    }
    Some((b.build(), each, mature, flags, created))
}

fn mutate_tx(rng: &mut Rng, tx: &TransactionView, chain: &Chain, tip: u64, max_bytes: u64) -> (TransactionView, &'static str) {
    match rng.below(11) {
        0 => {
            // outputs exceed inputs
            let outs: Vec<CellOutput> = tx.outputs().into_iter().collect();
            let cap: u64 = outs[0].capacity().unpack();
            let mut o2 = outs.clone();
            o2[0] = outs[0].clone().as_builder().capacity(Capacity::shannons(cap + 100_0000_0000_0000).pack()).build();
            (tx.as_advanced_builder().set_outputs(o2).build(), "capacity-overflow")
        }
        1 => {
            let inp: Vec<CellInput> = tx.inputs().into_iter().collect();
            let mut i2 = inp.clone();
            i2.push(inp[0].clone());
            (tx.as_advanced_builder().set_inputs(i2).build(), "duplicated-input")
        }
        2 => {
            let mut i2: Vec<CellInput> = tx.inputs().into_iter().collect();
            i2[0] = CellInput::new(OutPoint::new(Byte32::new(super::super::mutate::rand32(rng)), 0), 0);
            (tx.as_advanced_builder().set_inputs(i2).build(), "unknown-input")
        }
        3 => {
            let dep = CellDep::new_builder().out_point(OutPoint::new(Byte32::new(super::super::mutate::rand32(rng)), 0)).dep_type(DepType::Code.into()).build();
            (tx.as_advanced_builder().set_cell_deps(vec![dep]).build(), "unknown-dep")
        }
        4 => {
            // absolute block-number since in the future
            let mut i2: Vec<CellInput> = tx.inputs().into_iter().collect();
            i2[0] = CellInput::new(i2[0].previous_output(), tip + 1000);
            (tx.as_advanced_builder().set_inputs(i2).build(), "since-immature")
        }
        5 => {
            // output below its occupied capacity
            let outs: Vec<CellOutput> = tx.outputs().into_iter().collect();
            let mut o2 = outs.clone();
            o2[0] = outs[0].clone().as_builder().capacity(Capacity::shannons(1000).pack()).build();
            (tx.as_advanced_builder().set_outputs(o2).build(), "output-below-occupied")
        }
        6 => (tx.as_advanced_builder().set_cell_deps(vec![]).build(), "script-code-not-in-deps"),
        7 => {
            let deps: Vec<CellDep> = tx.cell_deps().into_iter().collect();
            let mut d2 = deps.clone();
            d2.push(deps[0].clone());
            (tx.as_advanced_builder().set_cell_deps(d2).build(), "duplicated-dep")
        }
        8 => {
            // an input locked by a script nobody deployed: spend a cellbase output of a chain that uses other locks? use a dep group pointing nowhere
            let dep = CellDep::new_builder().out_point(tx.cell_deps().get(0).unwrap().out_point()).dep_type(DepType::DepGroup.into()).build();
            (tx.as_advanced_builder().set_cell_deps(vec![dep]).build(), "dep-group-with-garbage-data")
        }
        9 => (oversized(tx, max_bytes), "oversized-witness"),
        _ => {
            let _ = chain;
            (tx.as_advanced_builder().set_outputs(vec![]).set_outputs_data(vec![]).build(), "no-outputs")
        }
    }
}

/// the same transaction (same hash: witnesses are not part of it) with a witness that makes its serialized size exceed the
/// block size limit: structurally invalid whatever the scripts say
fn oversized(tx: &TransactionView, max_bytes: u64) -> TransactionView {
    tx.as_advanced_builder().witness(Bytes::from(vec![0x5au8; max_bytes as usize + 1]).pack()).build()
}

/// flip one bit of the signature in the witness of input `fi` (the transaction hash does not change)
fn corrupt_signature(tx: &TransactionView, fi: usize) -> TransactionView {
    let mut wits: Vec<Bytes> = tx.witnesses().into_iter().map(|w| w.raw_data()).collect();
    if let Some(w) = wits.get(fi).cloned() {
        let mut v = w.to_vec();
        if v.len() > 30 {
            let i = v.len() - 30;
            v[i] ^= 0x04;
        }
        wits[fi] = Bytes::from(v);
    }
    tx.as_advanced_builder().set_witnesses(wits.into_iter().map(|w| w.pack()).collect()).build()
}

fn tx_status(w: &World, h: &Byte32) -> (String, Option<u64>) {
    let hh: H256 = h.unpack();
    let r = w.c().rpc_tx().get_transaction(hh).expect("get_transaction");
    let v = serde_json::to_value(&r).unwrap();
    (v["tx_status"]["status"].as_str().unwrap_or("").to_string(), v["cycles"].as_str().map(|s| u64::from_str_radix(s.trim_start_matches("0x"), 16).unwrap_or(0)))
}

fn scenario(seed: u64, k: u64, out: &Out) {
    let mut rng = Rng::new(seed);
    let (now, base_ts) = time_base();
    let mut params = gen_params(&mut rng, seed, base_ts);
    params.always_success = true;
    // half of the scenarios also deploy the real secp256k1_blake160_sighash_all lock: verdicts then depend on signatures
    params.secp = rng.chance(1, 2);
    let secp = params.secp;
    params.pow = PowKind::Dummy;
    params.diff_mode = DiffMode::Fixed;
    params.tx_density = *rng.pick(&[0, 30, 60]);
    params.n_types = 0;
    let len = rng.range(40, 110);
    let mut ccfg = gen_ccfg(&mut rng);
    ccfg.cp_interval = 2000;
    let main = Chain::generate(params, len);
    let (_, _, lock) = always_success_cell();
    let mut w = World::new(main, ccfg, seed, now);
    let net = HonestNet::new(0);
    w.add_peer(0, true);
    let secp_lock = super::super::chain::secp_lock(0);
    let mut regs = vec![(lock.clone(), ST::Lock, 0)];
    if secp {
        regs.push((secp_lock.clone(), ST::Lock, 0));
    }
    set_scripts(&w, &regs, None);
    w.connect_all();
    let desc = json!({"seed": seed, "scenario": k, "len": len, "secp_lock_deployed": secp});
    let mut conv = false;
    for _ in 0..12 {
        if w.run_until(&mut NoHook, 10, |w| w.converged_on(0)).is_some() {
            conv = true;
            break;
        }
        net.grow(&mut w, 1);
    }
    if !conv || w.dead {
        out.count("setup_not_converged", 1);
        w.close();
        return;
    }
    let chain = w.chains[0].clone();
    let tip = chain.tip();
    let idx = refidx::build(&chain, tip);
    let maturity = w.c().consensus.cellbase_maturity();
    let max_bytes = w.c().consensus.max_block_bytes();
    let tip_epoch = chain.blocks[tip as usize].epoch();
    let mut pool: Vec<Spendable> = vec![];
    let mut secp_ops: HashSet<OutPoint> = HashSet::new();
    for (l, is_secp) in [(&lock, false), (&secp_lock, true)] {
        if is_secp && !secp {
            continue;
        }
        if let Some(cells) = idx.live.get(&(ST::Lock, refidx::script_key(l))) {
            for c in cells.iter().filter(|c| c.block > 0) {
                let op = OutPoint::new(Byte32::from_slice(&refidx::unhex_json(&json!(format!("0x{}", c.tx_hash)))).unwrap(), c.index);
                if is_secp {
                    secp_ops.insert(op.clone());
                }
                pool.push(Spendable {
                    op,
                    capacity: c.capacity,
                    mature: c.tx_index != 0 || {
                        let cb = chain.blocks[c.block as usize].epoch().to_rational() + maturity.to_rational();
                        cb <= tip_epoch.to_rational()
                    },
                    secp: is_secp,
                    created: Some(c.block),
                });
            }
        }
    }
    let genesis_cb = chain.blocks[0].transactions()[0].hash();
    let dep = CellDep::new_builder().out_point(OutPoint::new(genesis_cb.clone(), 3)).dep_type(DepType::Code.into()).build();
    let secp_deps: Option<(CellDep, CellDep)> = if secp {
        Some((
            CellDep::new_builder().out_point(OutPoint::new(genesis_cb.clone(), 4)).dep_type(DepType::Code.into()).build(),
            CellDep::new_builder().out_point(OutPoint::new(genesis_cb.clone(), 5)).dep_type(DepType::Code.into()).build(),
        ))
    } else {
        None
    };
    let relay_peers: Vec<PeerId> = (0..rng.range(1, 3)).map(|_| PeerId::random()).collect();
    let mut sessions: Vec<Option<(PeerIndex, bool)>> = vec![None; relay_peers.len()];
    let mut next_session = 0usize;
    let mut active_v3: Option<bool> = None;
    let mut model: VecDeque<(Byte32, u64)> = VecDeque::new(); // FIFO pool model (hash, cycles)
    let mut rejected: Vec<Byte32> = vec![];
    let mut evicted: Vec<Byte32> = vec![];
    let mut resubmitted: HashSet<Byte32> = HashSet::new();
    let mut announced: HashMap<(usize, Byte32), u32> = HashMap::new();
    let long = rng.chance(1, 4);
    let n_sub = rng.range(10, if long { 220 } else { 40 });
    let mut violated = false;
    for step in 0..n_sub {
        if w.dead || violated {
            break;
        }
        // a user retries a transaction that is already pending: accepted again, still one pool entry
        if !model.is_empty() && rng.chance(1, 10) {
            let (h, cyc) = model[rng.pick_idx(model.len())].clone();
            let stored: Option<packed::Transaction> = w.c().pending.read().ok().and_then(|p| p.get(&h)).map(|(t, _, _)| t);
            let jtx: Option<ckb_jsonrpc_types::Transaction> = stored.clone().map(|t| t.into());
            // ... or a variant of it with the same hash that is not verifiable (witnesses are outside the hash): it must be
            // rejected like any other invalid transaction and must not replace the verified entry
            if let (Some(st), true) = (stored.clone(), rng.chance(1, 3)) {
                let stv = st.into_view();
                let fl = secp_flags(&stv, &secp_ops);
                let (bad, how) = match fl.iter().position(|x| *x) {
                    Some(fi) if rng.chance(2, 3) => (corrupt_signature(&stv, fi), "corrupted-signature"),
                    _ => (oversized(&stv, max_bytes), "oversized-witness"),
                };
                let jbad: ckb_jsonrpc_types::Transaction = bad.data().into();
                let est = guarded(|| w.c().rpc_chain().estimate_cycles(jbad.clone()));
                let sent = guarded(|| w.c().rpc_tx().send_transaction(jbad.clone()));
                out.eval(2);
                let (e_ok, s_ok) = (matches!(est, Ok(Ok(_))), matches!(sent, Ok(Ok(_))));
                out.cell(&format!("resubmit-invalid-variant|{}|send={}|estimate={}", how, s_ok, e_ok));
                if e_ok || s_ok {
                    violated = true;
                    out.violation("C18.R1", &format!("C18|verdict-differs-from-reference|pending-hash-resubmitted-with-{}|expected=false|send={}|estimate={}", how, s_ok, e_ok), json!({"scenario": desc}), k);
                    break;
                }
                let after: Option<packed::Transaction> = w.c().pending.read().ok().and_then(|p| p.get(&h)).map(|(t, _, _)| t);
                let (stt, cycles) = tx_status(&w, &h);
                if after.as_ref().map(|t| t.as_slice().to_vec()) != stored.as_ref().map(|t| t.as_slice().to_vec()) || stt != "pending" || cycles != Some(cyc) {
                    violated = true;
                    out.violation("C18.R2", "C18|pending-entry-changed-by-a-rejected-variant", json!({"scenario": desc, "status": stt, "cycles": cycles}), k);
                    break;
                }
            } else if let Some(jtx) = jtx {
                let r = guarded(|| w.c().rpc_tx().send_transaction(jtx.clone()));
                out.eval(1);
                out.cell(&format!("resubmit|ok={}", matches!(r, Ok(Ok(_)))));
                if let Ok(Ok(_)) = r {
                    // FIFO position: a retried transaction counts as the newest entry
                    model.retain(|(x, _)| *x != h);
                    model.push_back((h.clone(), cyc));
                    resubmitted.insert(h.clone());
                }
            }
        }
        // a valid base transaction (sometimes spending the output of a pending one)
        let n_in = rng.range(1, 2) as usize;
        let (tx, each, mature, flags, created) = match base_tx(&mut rng, &mut pool, &dep, &secp_deps, &lock, n_in) {
            Some(x) => x,
            None => continue,
        };
        let has_secp = flags.iter().any(|x| *x);
        let mutate = rng.chance(2, 5);
        // every transaction is signed *after* its mutation, so that a structural mutation is rejected for its own reason and
        // not merely because the signature no longer covers it; the signature mutations are applied to the signed transaction
        let (tx, op, expect_ok): (TransactionView, &str, bool) = if mutate && has_secp && rng.chance(1, 3) {
            let signed = sign_tx(&tx, &flags, 0);
            let fi = flags.iter().position(|x| *x).unwrap();
            match rng.below(3) {
                0 => (corrupt_signature(&signed, fi), "signature-bit-flipped", false),
                1 => (sign_tx(&tx, &flags, 1), "signed-by-another-key", false),
                _ => (tx.as_advanced_builder().set_witnesses(vec![]).build(), "signature-missing", false),
            }
        } else if mutate {
            let (t, op) = mutate_tx(&mut rng, &tx, &chain, tip, max_bytes);
            let fl = secp_flags(&t, &secp_ops);
            let t = if op == "oversized-witness" { oversized(&sign_tx(&tx, &flags, 0), max_bytes) } else { sign_tx(&t, &fl, 0) };
            (t, op, false)
        } else if !mature {
            (sign_tx(&tx, &flags, 0), "cellbase-immature", false)
        } else if rng.chance(1, 3) {
            // `since` on one input, in cases whose verdict is clear of the boundary (the client verifies against its stored tip plus the
            // proposal window): absolute / relative block number, absolute epoch; relative to a committed cell or to the output of a
            // PENDING transaction (no block yet: a relative lock on it cannot be satisfied, whatever its value)
            let ii = rng.pick_idx(created.len());
            const REL: u64 = 1 << 63;
            const EPOCH: u64 = 1 << 61;
            let (since, name, ok): (u64, &str, bool) = match (created[ii], rng.below(6)) {
                (None, 0..=2) => (REL | rng.range(0, 3), "since-relative-number-on-the-output-of-a-pending-transaction", false),
                (None, 3) => (REL | EPOCH | ckb_types::core::EpochNumberWithFraction::new(0, 0, 1).full_value(), "since-relative-epoch-on-the-output-of-a-pending-transaction", false),
                (Some(c), 0) if c <= tip => (REL | rng.range(0, tip - c), "since-relative-number-satisfied", true),
                (Some(c), 1) => (REL | (tip.saturating_sub(c) + rng.range(10, 1000)), "since-relative-number-unsatisfied", false),
                (_, 4) => (EPOCH | ckb_types::core::EpochNumberWithFraction::new(tip_epoch.number() + rng.range(3, 50), 0, 1).full_value(), "since-absolute-epoch-unsatisfied", false),
                // (an epoch at or before the tip's epoch, fraction 0/1: satisfied whatever the tip's epoch is, also in epoch 0)
                (_, 5) => (EPOCH | ckb_types::core::EpochNumberWithFraction::new(tip_epoch.number().saturating_sub(rng.range(1, 3)), 0, 1).full_value(), "since-absolute-epoch-satisfied", true),
                _ => (rng.range(0, tip), "since-absolute-number-satisfied", true),
            };
            let mut i2: Vec<CellInput> = tx.inputs().into_iter().collect();
            i2[ii] = CellInput::new(i2[ii].previous_output(), since);
            let t = tx.as_advanced_builder().set_inputs(i2).build();
            (sign_tx(&t, &flags, 0), name, ok)
        } else {
            (sign_tx(&tx, &flags, 0), if has_secp { "valid-signed" } else { "valid" }, true)
        };
        let jtx: ckb_jsonrpc_types::Transaction = tx.data().into();
        let est = guarded(|| w.c().rpc_chain().estimate_cycles(jtx.clone()));
        let sent = guarded(|| w.c().rpc_tx().send_transaction(jtx.clone()));
        out.eval(2);
        let (est, sent) = match (est, sent) {
            (Ok(a), Ok(b)) => (a, b),
            (a, b) => {
                for r in [a.err(), b.err()].into_iter().flatten() {
                    if let Unwound::Panic(p) = r {
                        violated = true;
                        out.violation("C18.R1", &p.signature("C18", op), json!({"scenario": desc, "operator": op, "panic": p.message, "at": p.location}), k);
                    }
                }
                break;
            }
        };
        let est_cycles: Option<u64> = est.as_ref().ok().map(|e| { let v = serde_json::to_value(e).unwrap(); u64::from_str_radix(v["cycles"].as_str().unwrap_or("0x0").trim_start_matches("0x"), 16).unwrap_or(0) });
        out.cell(&format!("submit|{}|send={}|estimate={}", op, sent.is_ok(), est.is_ok()));
        if sent.is_ok() != expect_ok || est.is_ok() != expect_ok {
            violated = true;
            out.violation("C18.R1", &format!("C18|verdict-differs-from-reference|{}|expected={}|send={}|estimate={}", op, expect_ok, sent.is_ok(), est.is_ok()),
                json!({"scenario": desc, "operator": op, "send_error": sent.as_ref().err().map(|e| format!("{:?}", e).chars().take(300).collect::<String>()), "estimate_error": est.as_ref().err().map(|e| format!("{:?}", e).chars().take(300).collect::<String>())}), k);
            break;
        }
        let h = tx.hash();
        if expect_ok {
            let cyc = est_cycles.unwrap_or(0);
            model.push_back((h.clone(), cyc));
            if model.len() > 64 {
                // evicted: its outputs can no longer be resolved
                let (gone, _) = model.pop_front().unwrap();
                pool.retain(|sp| sp.op.tx_hash() != gone);
                evicted.push(gone);
            }
            // its outputs are spendable by later (pending-chained) transactions
            for (i, o) in tx.outputs().into_iter().enumerate() {
                let is_secp = o.lock() == secp_lock;
                let op = OutPoint::new(h.clone(), i as u32);
                if is_secp {
                    secp_ops.insert(op.clone());
                }
                pool.push(Spendable { op, capacity: each, mature: true, secp: is_secp, created: None });
            }
            let (st, cycles) = tx_status(&w, &h);
            out.eval(1);
            if st != "pending" || cycles != Some(cyc) {
                violated = true;
                out.violation("C18.R3", "C18|accepted-transaction-not-pending-or-cycles-differ", json!({"scenario": desc, "status": st, "cycles": cycles, "estimated": cyc}), k);
            }
        } else {
            rejected.push(h.clone());
            let (st, _) = tx_status(&w, &h);
            out.eval(1);
            if st != "unknown" {
                violated = true;
                out.violation("C18.R2", &format!("C18|rejected-transaction-visible|{}", op), json!({"scenario": desc, "status": st}), k);
            }
        }
        // pool model: members pending, evicted ones unknown (oldest first)
        if step % 7 == 6 || model.len() >= 64 {
            out.eval(1);
            let size = w.c().pending.read().map(|p| model.iter().filter(|(h, _)| p.get(h).is_some()).count()).unwrap_or(0);
            if size != model.len() {
                violated = true;
                out.violation("C18.R3", "C18|pool-differs-from-fifo-model", json!({"scenario": desc, "model": model.len(), "present": size}), k);
            }
            out.cell(&format!("pool|{}", if model.len() >= 64 { "full" } else { "partial" }));
            if let Some(g) = evicted.last() {
                let (st, _) = tx_status(&w, g);
                out.eval(1);
                out.cell("pool|evicted-oldest");
                if st != "unknown" && !violated {
                    violated = true;
                    out.violation("C18.R3", "C18|evicted-transaction-still-visible", json!({"scenario": desc, "status": st}), k);
                }
            }
        }
        // relay: connect / reconnect (same peer id, new session) / tick.  The tick is only driven when no opened
        // session would take the close_protocol / open_protocol branch, which needs tentacle's ServiceControl.
        if !model.is_empty() && rng.chance(2, 3) {
            let which = rng.pick_idx(relay_peers.len());
            let unannounced = |which: usize, announced: &HashMap<(usize, Byte32), u32>| model.iter().any(|(h, _)| !announced.contains_key(&(which, h.clone())));
            let op = rng.below(4);
            let r: Result<(), Unwound> = if sessions[which].is_none() {
                // open a session (fresh session id, same peer id)
                next_session += 1;
                let pi = PeerIndex::new(500 + next_session);
                let addr: MultiAddr = format!("/ip4/127.0.0.1/tcp/{}/p2p/{}", 9000 + which, relay_peers[which].to_base58()).parse().expect("multiaddr");
                w.c().log.set_peer(pi, Peer::new(pi, SessionType::Outbound, addr, false));
                let had_new = unannounced(which, &announced);
                sessions[which] = Some((pi, had_new));
                out.cell(&format!("relay|connect|new={}", had_new));
                let c = w.cm();
                let (rt, relay2, relay3, nc2, nc3) = (&c.rt, &mut c.relay2, &mut c.relay3, c.nc_relay2.clone(), c.nc_relay3.clone());
                guarded(|| {
                    rt.block_on(relay2.connected(nc2.clone(), pi, "2"));
                    rt.block_on(relay3.connected(nc3.clone(), pi, "3"));
                })
            } else if op == 0 {
                let (pi, _) = sessions[which].take().unwrap();
                out.cell("relay|disconnect");
                let c = w.cm();
                let (rt, relay2, relay3, nc2, nc3) = (&c.rt, &mut c.relay2, &mut c.relay3, c.nc_relay2.clone(), c.nc_relay3.clone());
                guarded(|| {
                    rt.block_on(relay2.disconnected(nc2.clone(), pi));
                    rt.block_on(relay3.disconnected(nc3.clone(), pi));
                })
            } else {
                // tick: safe when every open session either was sent something already or has something new
                let safe = sessions.iter().enumerate().all(|(i, s)| match s { None => true, Some((_, sent)) => *sent || unannounced(i, &announced) }) && sessions.iter().any(|s| s.is_some());
                if safe {
                    out.cell("relay|tick");
                    for (i, s) in sessions.iter_mut().enumerate() {
                        if let Some((_, sent)) = s {
                            if unannounced(i, &announced) {
                                *sent = true;
                            }
                        }
                    }
                    let c = w.cm();
                    let (rt, relay2, relay3, nc2, nc3) = (&c.rt, &mut c.relay2, &mut c.relay3, c.nc_relay2.clone(), c.nc_relay3.clone());
                    let v3 = active_v3;
                    guarded(|| match v3 {
                        Some(true) => rt.block_on(relay3.notify(nc3.clone(), 0)),
                        Some(false) => rt.block_on(relay2.notify(nc2.clone(), 0)),
                        None => {}
                    })
                } else {
                    Ok(())
                }
            };
            if let Err(Unwound::Panic(p)) = r {
                violated = true;
                out.violation("C18.R4", &p.signature("C18", "relay"), json!({"scenario": desc, "panic": p.message, "at": p.location}), k);
                break;
            }
        }
        // collect relay traffic
        for s in w.c().log.take_outbox() {
            if let Some(p) = P::of(s.proto) {
                if p == P::Relay2 || p == P::Relay3 {
                    active_v3 = Some(p == P::Relay3);
                    if let Ok(m) = packed::RelayMessageReader::from_compatible_slice(&s.data) {
                        if let packed::RelayMessageUnionReader::RelayTransactionHashes(r) = m.to_enum() {
                            let which = sessions.iter().position(|x| x.map(|(pi, _)| pi == s.peer).unwrap_or(false)).unwrap_or(99);
                            for hh in r.tx_hashes().iter() {
                                out.eval(1);
                                let e = announced.entry((which, hh.to_entity())).or_insert(0);
                                *e += 1;
                                if *e > 1 && !violated {
                                    violated = true;
                                    let how = if resubmitted.contains(&hh.to_entity()) { "|after-resubmission" } else { "" };
                                    out.violation("C18.R4", &format!("C18|hash-announced-twice-to-one-peer{}", how), json!({"scenario": desc}), k);
                                }
                                if rejected.contains(&hh.to_entity()) && !violated {
                                    violated = true;
                                    out.violation("C18.R2", "C18|rejected-transaction-relayed", json!({"scenario": desc}), k);
                                }
                                if !model.iter().any(|(x, _)| *x == hh.to_entity()) && !violated {
                                    violated = true;
                                    out.violation("C18.R2", "C18|hash-outside-pool-relayed", json!({"scenario": desc}), k);
                                }
                                out.cell("relay|announce");
                            }
                        }
                    }
                }
            }
        }
    }
    // every pool member that an open, ticked session had not seen was announced to it (bounded no-loss)
    // GetRelayTransactions: cycles equal to the estimate; unknown / rejected hashes are not served
    if !w.dead && !violated && !model.is_empty() {
        let mut ask: Vec<Byte32> = model.iter().take(5).map(|(h, _)| h.clone()).collect();
        ask.extend(rejected.iter().take(3).cloned());
        let msg = packed::RelayMessage::new_builder().set(packed::GetRelayTransactions::new_builder().tx_hashes(ask.pack()).build()).build().as_bytes();
        let pi = PeerIndex::new(499);
        let _ = w.cm().received(if active_v3 == Some(true) { P::Relay3 } else { P::Relay2 }, pi, msg);
        for s in w.c().log.take_outbox() {
            if let Ok(m) = packed::RelayMessageReader::from_compatible_slice(&s.data) {
                if let packed::RelayMessageUnionReader::RelayTransactions(r) = m.to_enum() {
                    for t in r.transactions().iter() {
                        out.eval(1);
                        let h = t.transaction().to_entity().calc_tx_hash();
                        let cyc: u64 = t.cycles().unpack();
                        let want = model.iter().find(|(x, _)| *x == h).map(|(_, c)| *c);
                        out.cell("relay|serve");
                        if rejected.contains(&h) || want.is_none() {
                            out.violation("C18.R2", "C18|unknown-or-rejected-transaction-served", json!({"scenario": desc}), k);
                        } else if want != Some(cyc) {
                            out.violation("C18.R5", "C18|relayed-cycles-differ-from-estimate", json!({"scenario": desc, "relayed": cyc, "estimated": want}), k);
                        }
                    }
                }
            }
        }
    }
    out.count("scenarios", 1);
    out.sample("scenario", 2, || json!({"scenario": desc, "accepted": model.len(), "rejected": rejected.len()}));
    let _: Option<(HashSet<u8>, P2pBytes, Value)> = None;
    let _ = hex(&[]);
    w.close();
}
