//! C01 - trusted chain state changes only on a fully verified last-state proof.

use std::collections::{BTreeMap, HashMap};

use ckb_network::PeerIndex;
use ckb_types::{packed, prelude::*};
use rocksdb::{ops::{Get, Iterate}, Direction, IteratorMode};
use serde_json::json;

use super::super::chain::Chain;
use super::super::client::{kp, meta_key};
use super::super::mutate;
use super::super::net::Sent;
use super::super::out::{hex, Out, RunCfg};
use super::super::rng::Rng;
use super::super::server::{self, LC};
use super::super::world::{Hook, Label, Outcome, Resp, World};
use super::common::*;

/// serialization of everything C01 calls trusted state: (per-peer prove states, global part)
pub fn trusted_state(w: &World) -> (BTreeMap<usize, Vec<u8>>, Vec<u8>) {
    let c = w.c();
    let mut peers: BTreeMap<usize, Vec<u8>> = BTreeMap::new();
    for id in c.peers.get_peers_index() {
        if let Some(st) = c.peers.get_state(&id) {
            if let Some(ps) = st.get_prove_state() {
                let mut v: Vec<u8> = vec![];
                let lh = ps.get_last_header();
                v.extend_from_slice(lh.header().hash().as_slice());
                v.extend_from_slice(lh.uncles_hash().as_slice());
                v.extend_from_slice(&lh.total_difficulty().to_le_bytes());
                if let Some(e) = lh.extension() {
                    v.extend_from_slice(e.as_slice());
                }
                v.push(0xfe);
                for h in ps.get_reorg_last_headers() {
                    v.extend_from_slice(h.hash().as_slice());
                }
                v.push(0xfd);
                for h in ps.get_last_headers() {
                    v.extend_from_slice(h.hash().as_slice());
                }
                peers.insert(id.value(), v);
            }
        }
    }
    let mut v: Vec<u8> = vec![];
    for name in ["LAST_STATE", "LAST_N_HEADERS"] {
        if let Ok(Some(val)) = c.storage.db.get(meta_key(name)) {
            v.extend_from_slice(&val);
        }
        v.push(0xfb);
    }
    // stored headers (what get_header serves from the store)
    let from = [kp::BLOCK_HASH];
    for (k, val) in c.storage.db.iterator(IteratorMode::From(&from, Direction::Forward)) {
        if k[0] >= kp::CHECK_POINT {
            break;
        }
        v.extend_from_slice(&k);
        v.extend_from_slice(&val);
    }
    (peers, v)
}

/// changed = the global part differs, or a peer that still exists has a different (or new) prove state.
/// The record of a peer that was banned / disconnected as a consequence of the message is gone: that
/// removal is the rejection itself, not an adoption of the message's data.
pub fn state_changed(before: &(BTreeMap<usize, Vec<u8>>, Vec<u8>), after: &(BTreeMap<usize, Vec<u8>>, Vec<u8>)) -> bool {
    if before.1 != after.1 {
        return true;
    }
    for (id, v) in after.0.iter() {
        if before.0.get(id) != Some(v) {
            // documented side entry: the peer's (unproven) last state equals a header another peer has
            // already proven - the verified prove state is copied
            if before.0.iter().any(|(oid, ov)| oid != id && ov == v) {
                continue;
            }
            return true;
        }
    }
    false
}

pub fn state_name(w: &World, id: PeerIndex) -> String {
    match w.c().peers.get_state(&id) {
        None => "NoPeer".to_string(),
        Some(st) => {
            let s = format!("{}", st);
            s.trim_start_matches("PeerState::").split(' ').next().unwrap_or("?").to_string()
        }
    }
}

struct Adv<'a> {
    out: &'a Out,
    k: u64,
    rng: Rng,
    mutate_pct: u64,
    other_chain: Option<usize>,
    before: Option<(BTreeMap<usize, Vec<u8>>, Vec<u8>)>,
    state_before: String,
    /// per peer: (request bytes, honest answer) of the latest and the previous proof request
    latest: HashMap<usize, (Vec<u8>, Resp)>,
    previous: HashMap<usize, (Vec<u8>, Resp)>,
    accepted_invalid: u64,
    judged: u64,
    desc: serde_json::Value,
    /// real PoW (Eaglesong): a header with an unsolved nonce is observable
    real_pow: bool,
    /// peer -> index of a chain that extends the peer's chain by a fabricated child whose nonce is NOT solved; the peer answers
    /// every request about that child consistently (own MMR root, honest samples and last-N headers of the real ancestors)
    fake: HashMap<usize, usize>,
    pow_violated: bool,
    /// captured before every SendLastStateProof: the peer's proven header (hash, total difficulty, epoch, compact target) and the
    /// outstanding request (start number, difficulty boundary, last-N)
    ps_before: Option<(packed::Byte32, ckb_types::U256, ckb_types::core::EpochNumberWithFraction, u32, u64, ckb_types::U256, u64)>,
    td_violated: bool,
}

impl<'a> Adv<'a> {
    /// ground truth, independent of labels: whatever was delivered, every header the client treats as proven (each peer's
    /// prove state, the stored tip) must carry valid proof of work
    fn check_pow_of_trusted_headers(&mut self, w: &World, last_msg: &str) {
        if !self.real_pow || self.pow_violated || w.client.is_none() || w.dead {
            return;
        }
        let c = w.c();
        let pow = w.consensus.pow_engine();
        let mut bad: Option<(String, String)> = None;
        for id in c.peers.get_peers_index() {
            if let Some(ps) = c.peers.get_state(&id).and_then(|st| st.get_prove_state().cloned()) {
                let h = ps.get_last_header().header();
                if !pow.verify(&h.data()) {
                    bad = Some(("prove-state".into(), format!("#{} {:x}", h.number(), h.hash())));
                }
            }
        }
        let tip = c.storage.get_tip_header();
        if !pow.verify(&tip) {
            bad = Some(("stored-tip".into(), format!("#{} {:x}", Unpack::<u64>::unpack(&tip.raw().number()), tip.calc_header_hash())));
        }
        self.out.eval(1);
        if let Some((wh, hd)) = bad {
            self.pow_violated = true;
            self.out.violation("C01.R4", &format!("C01|header-without-valid-pow-in-trusted-state|{}", wh),
                json!({"scenario": self.desc, "where": wh, "header": hd, "after_message": last_msg, "trace": w.trace_vec().into_iter().rev().take(25).collect::<Vec<_>>()}), self.k);
        }
    }
}

impl<'a> Adv<'a> {
    /// ground truth, independent of labels (C01.R5): when a proof WITH sampled headers moves a peer's proven header from A to B, the pair
    /// (A, B) has passed the total-difficulty range check - evaluated here by calling the client's own pure function
    /// verify_total_difficulty (whose verdicts C14 judges on their own). Whatever the layout of the accepted answer was (with or
    /// without a reorg section), a move across a range that this function refuses is a proof that was not fully verified.
    fn check_total_difficulty_of_the_move(&mut self, w: &World, pi: usize, m: &Resp, described: &str) {
        let (a_hash, a_td, a_epoch, a_compact, start_number, boundary, last_n) = match self.ps_before.take() {
            Some(x) => x,
            None => return,
        };
        if self.td_violated || w.client.is_none() || w.dead {
            return;
        }
        let b = match w.c().peers.get_state(&w.peers[pi].id).and_then(|st| st.get_prove_state().cloned()) {
            Some(ps) => ps,
            None => return,
        };
        let bh = b.get_last_header();
        if bh.header().hash() == a_hash {
            return;
        }
        // sampled headers in the accepted message, counted the way the protocol defines the sections
        let msg = match packed::LightClientMessageReader::from_compatible_slice(&m.data).map(|x| x.to_enum()) {
            Ok(packed::LightClientMessageUnionReader::SendLastStateProof(r)) => r.to_entity(),
            _ => return,
        };
        let hs: Vec<ckb_types::utilities::merkle_mountain_range::VerifiableHeader> = msg.headers().into_iter().map(Into::into).collect();
        let reorg = hs.iter().take_while(|h| h.header().number() < start_number).count();
        let nonreorg = hs.len() - reorg;
        let sampled = if (nonreorg as u64) <= last_n {
            0
        } else {
            let bb = hs.iter().skip(reorg).take_while(|h| h.total_difficulty() < boundary).count();
            if ((nonreorg - bb) as u64) > last_n { bb } else { nonreorg - last_n as usize }
        };
        if sampled == 0 {
            return;
        }
        self.out.eval(1);
        self.out.count("prove_state_moves_with_samples_checked_against_the_total_difficulty_range", 1);
        self.out.cell(&format!("move-with-samples|reorg-section={}", reorg > 0));
        use crate::protocols::light_client::verif_access::verify_total_difficulty;
        if let Err(why) = verify_total_difficulty(a_epoch, a_compact, &a_td, bh.header().epoch(), bh.header().compact_target(), &bh.total_difficulty(), 2) {
            self.td_violated = true;
            self.out.violation("C01.R5", &format!("C01|proven-header-moved-across-a-refused-total-difficulty-range|reorg-section={}", reorg > 0),
                json!({"scenario": self.desc, "message": described, "from": format!("{:x}", a_hash), "to": format!("#{} {:x}", bh.header().number(), bh.header().hash()), "refused_because": why.chars().take(300).collect::<String>(),
                    "sampled_headers": sampled, "reorg_headers": reorg, "trace": w.trace_vec().into_iter().rev().take(20).collect::<Vec<_>>()}), self.k);
        }
    }
}

impl<'a> Hook for Adv<'a> {
    fn respond(&mut self, w: &mut World, pi: usize, sent: &Sent, honest: Vec<Resp>) -> Vec<Resp> {
        if sent.proto != LC.id() {
            return honest;
        }
        let req = match packed::LightClientMessageReader::from_compatible_slice(&sent.data).map(|m| m.to_enum()) {
            Ok(packed::LightClientMessageUnionReader::GetLastStateProof(r)) => r.to_entity(),
            _ => return honest,
        };
        if let Some(fci) = self.fake.get(&pi) {
            let fake = &w.chains[*fci];
            if fake.num_of(&req.last_hash()) == Some(fake.tip()) {
                // the follow-up of the attack: a consistent answer about the fabricated (unmined) child
                if let Some(p) = server::last_state_proof(fake, &req) {
                    self.out.count("consistent_answers_about_the_unmined_child", 1);
                    return vec![Resp { proto: LC, data: server::lc_msg(p), label: Label::Unjudged }];
                }
            }
        }
        if self.real_pow && self.rng.chance(1, 14) {
            // tip-state reply (the peer "moved on"): the new last header is a child of the peer's tip that commits to the true
            // chain root but whose nonce is not solved
            let chain: Chain = w.chains[w.peers[pi].chain].clone();
            let (b, _) = mutate::forged_child(&chain, None, None, self.rng.next_u64());
            if let Some(ub) = super::super::chain::unmine(&b) {
                let mut fake = chain.clone();
                fake.append_block(ub);
                let vh = fake.vh(fake.tip());
                let fci = w.add_chain(fake);
                self.fake.insert(pi, fci);
                let data = server::lc_msg(packed::SendLastStateProof::new_builder().last_header(vh).build());
                return vec![Resp { proto: LC, data, label: Label::Invalid("tip-state-reply|unmined-child".into()) }];
            }
        }
        let chain: &Chain = &w.chains[w.peers[pi].chain];
        let parts = match server::proof_parts(chain, &req) {
            Some(p) => p,
            None => return honest,
        };
        let honest_entity = server::encode_proof(chain, &parts);
        let honest_resp = Resp::honest(LC, server::lc_msg(honest_entity.clone()));
        // remember for stale / cross-peer injection
        if let Some(prev) = self.latest.insert(pi, (req.as_slice().to_vec(), honest_resp.clone())) {
            if prev.0 != req.as_slice() {
                self.previous.insert(pi, prev);
            }
        }
        let mut out = vec![];
        let roll = self.rng.below(100);
        if roll < self.mutate_pct {
            let other = self.other_chain.map(|ci| &w.chains[ci]);
            for _try in 0..6 {
                if let Some((m, op)) = mutate::mutate_last_state_proof(&mut self.rng, chain, other, &parts, &honest_entity) {
                    out.push(Resp::invalid(LC, server::lc_msg(m), &op));
                    break;
                }
            }
            if out.is_empty() {
                if let Some((d, op)) = mutate::flip_byte_lc(&mut self.rng, &honest_resp.data) {
                    out.push(Resp::invalid(LC, d, &op));
                }
            }
            // sometimes the honest answer follows (it is only processed if the peer survived)
            if self.rng.chance(1, 3) {
                out.push(honest_resp);
            }
        } else if roll < self.mutate_pct + 8 {
            // answer to an earlier request of the same peer
            if let Some((preq, presp)) = self.previous.get(&pi) {
                if preq != req.as_slice() && presp.data != honest_resp.data {
                    out.push(Resp { proto: LC, data: presp.data.clone(), label: Label::Invalid("answer-to-earlier-request".into()) });
                }
            }
            out.push(honest_resp);
        } else if roll < self.mutate_pct + 16 {
            // answer to another peer's request
            let mut found = None;
            for (opi, (oreq, oresp)) in self.latest.iter() {
                if *opi != pi && oreq != req.as_slice() && oresp.data != honest_resp.data {
                    found = Some(oresp.data.clone());
                    break;
                }
            }
            if let Some(d) = found {
                out.push(Resp { proto: LC, data: d, label: Label::Invalid("answer-to-another-peers-request".into()) });
            }
            out.push(honest_resp);
        } else {
            out.push(honest_resp);
        }
        out
    }

    fn before_deliver(&mut self, w: &mut World, pi: usize, m: &Resp) {
        self.ps_before = None;
        if w.client.is_some() && m.proto == LC && server::kind_of(m.proto, &m.data) == "SendLastStateProof" {
            if let Some(st) = w.c().peers.get_state(&w.peers[pi].id) {
                if let (Some(ps), Some(req)) = (st.get_prove_state(), st.get_prove_request()) {
                    let lh = ps.get_last_header();
                    let c = req.get_content();
                    self.ps_before = Some((lh.header().hash(), lh.total_difficulty(), lh.header().epoch(), lh.header().compact_target(),
                        c.start_number().unpack(), c.difficulty_boundary().unpack(), c.last_n_blocks().unpack()));
                }
            }
        }
        // the outstanding request is the second one of a tau recheck (the client switched its tau check off for this answer)
        let rechecking = w.client.is_some()
            && w.c().peers.get_state(&w.peers[pi].id).and_then(|st| st.get_prove_request().map(|r| r.if_skip_check_tau())).unwrap_or(false);
        if rechecking && m.proto == LC && server::kind_of(m.proto, &m.data) == "SendLastStateProof" {
            self.out.count(if matches!(m.label, Label::Invalid(_)) { "invalid_answers_delivered_during_tau_recheck" } else { "other_answers_delivered_during_tau_recheck" }, 1);
        }
        if let Label::Invalid(op) = &m.label {
            self.state_before = state_name(w, w.peers[pi].id);
            if rechecking {
                self.state_before.push_str("+tau-recheck");
            }
            self.before = Some(trusted_state(w));
            // ground rule: a message is INVALID iff it differs from the honest answer to the request that is
            // outstanding *now* (an earlier message may have made the client ask something else meanwhile)
            let id = w.peers[pi].id;
            let cur_req = w.c().peers.get_state(&id).and_then(|st| st.get_prove_request().map(|r| r.get_content().clone()));
            if let Some(req) = cur_req {
                let chain = &w.chains[w.peers[pi].chain];
                if let Some(h) = server::last_state_proof(chain, &req) {
                    if server::lc_msg(h) == m.data {
                        self.before = None;
                        self.out.count("relabelled_as_honest_for_current_request", 1);
                    }
                }
            }
        }
    }

    fn after_deliver(&mut self, w: &mut World, pi: usize, m: &Resp, o: &Outcome) {
        self.out.eval(1);
        if m.proto == LC {
            let d = server::describe(m.proto, &m.data);
            self.check_pow_of_trusted_headers(w, &d);
            self.check_total_difficulty_of_the_move(w, pi, m, &d);
        }
        match &m.label {
            Label::Invalid(op) => {
                self.judged += 1;
                if w.client.is_none() || o.panic.is_some() || self.before.is_none() {
                    return; // a panic is C10's matter; the state cannot be read reliably
                }
                let after = trusted_state(w);
                let changed = self.before.as_ref().map(|b| state_changed(b, &after)).unwrap_or(false);
                let rejected = if !o.banned.is_empty() { "banned" } else { "ignored" };
                let opclass = op.split('|').next().unwrap_or("").to_string();
                self.out.cell(&format!("{}|{}|{}|{}", opclass, op.split('|').nth(1).unwrap_or("-"), self.state_before, if changed { "CHANGED" } else { rejected }));
                self.out.count(&format!("invalid|{}", rejected), 1);
                if changed && op.starts_with("answer-to-") {
                    // A replayed *authentic* answer (to another request about the same chain) carries only genuine headers,
                    // bound to its last header by a valid MMR proof. If the client's own checks accept it for the outstanding
                    // request (e.g. it contains the requested last-N section plus older genuine headers), the resulting state
                    // is the true state of that last header: that is a fully verified proof, not a violation.
                    let (td, header) = w.c().stored_tip();
                    let on_a_chain = |hash: &ckb_types::packed::Byte32, td: &ckb_types::U256| w.chains.iter().any(|c| c.num_of(hash).map(|n| c.td(n) == *td).unwrap_or(false));
                    let peer_ok = w
                        .c()
                        .peers
                        .get_state(&w.peers[pi].id)
                        .and_then(|st| st.get_prove_state().map(|p| on_a_chain(&p.get_last_header().header().hash(), &p.get_last_header().total_difficulty())))
                        .unwrap_or(true);
                    let truthful = on_a_chain(&header.calc_header_hash(), &td) && peer_ok;
                    if truthful {
                        self.out.count("authentic_replayed_answer_accepted_with_true_state", 1);
                        return;
                    }
                }
                if changed {
                    self.accepted_invalid += 1;
                    let mut nums: Vec<u64> = vec![];
                    let mut tds: Vec<String> = vec![];
                    if let Ok(mm) = packed::LightClientMessageReader::from_compatible_slice(&m.data) {
                        if let packed::LightClientMessageUnionReader::SendLastStateProof(r) = mm.to_enum() {
                            for h in r.headers().iter() {
                                nums.push(h.header().raw().number().unpack());
                                let vh: ckb_types::utilities::merkle_mountain_range::VerifiableHeader = h.to_entity().into();
                                tds.push(format!("{:#x}", vh.total_difficulty()));
                            }
                        }
                    }
                    let reqd = self.latest.get(&pi).and_then(|(rb, _)| packed::GetLastStateProof::from_slice(rb).ok()).map(|r| {
                        let b: ckb_types::U256 = r.difficulty_boundary().unpack();
                        let ds: Vec<String> = r.difficulties().into_iter().map(|d| { let x: ckb_types::U256 = d.unpack(); format!("{:#x}", x) }).collect();
                        json!({"start": Unpack::<u64>::unpack(&r.start_number()), "last_n": Unpack::<u64>::unpack(&r.last_n_blocks()), "boundary": format!("{:#x}", b), "difficulties": ds})
                    });
                    self.out.violation(
                        "C01.R1",
                        &format!("C01|state-changed|{}{}", op, if nums.len() == 1 && op.contains("proof-item") { "|single-leaf-mmr" } else { "" }),
                        json!({"scenario": self.desc, "operator": op, "peer_state": self.state_before, "message": server::describe(m.proto, &m.data), "header_numbers": nums, "header_tds": tds, "request": reqd,
                            "changed_part": if self.before.as_ref().map(|b| b.1 != after.1).unwrap_or(false) { "stored" } else { "peer-prove-state" },
                            "trace": w.trace_vec().into_iter().rev().take(25).collect::<Vec<_>>()}),
                        self.k,
                    );
                }
                self.out.sample(&format!("invalid|{}", opclass), 1, || json!({"operator": op, "peer_state": self.state_before, "message": server::describe(m.proto, &m.data), "state_changed": changed, "outcome": rejected}));
            }
            Label::Honest => {
                // replay of an accepted proof: must be a no-op
                if server::kind_of(m.proto, &m.data) == "SendLastStateProof" && o.banned.is_empty() && self.rng.chance(1, 6) && w.peers[pi].connected {
                    w.peers[pi].inbox.push_front(Resp { proto: LC, data: m.data.clone(), label: Label::Invalid("replay-after-acceptance".into()) });
                }
                let _ = pi;
            }
            Label::Unjudged => {}
        }
    }
}

pub fn run(cfg: &RunCfg, out: &Out) {
    for k in 0..cfg.budget {
        if out.time_up() {
            break;
        }
        if let Some(only) = cfg.only_scenario {
            if k != only {
                continue;
            }
        }
        let t0 = std::time::Instant::now();
        scenario(cfg.scenario_seed(k), k, out);
        let ms = t0.elapsed().as_millis() as u64;
        out.max("scenario_ms_max", ms);
        if ms > 5000 {
            out.note(&format!("slow scenario {} took {} ms", k, ms));
        }
    }
}

fn scenario(seed: u64, k: u64, out: &Out) {
    let mut rng = Rng::new(seed);
    let (now, base_ts) = time_base();
    let params = gen_params_with_jumps(&mut rng, seed, base_ts);
    let len = gen_len(&mut rng).min(260);
    let ccfg = gen_ccfg(&mut rng);
    let main = Chain::generate(params.clone(), len);
    let mut w = World::new(main, ccfg.clone(), seed, now);
    let mut net = HonestNet::new(0);
    // a competing branch used as a source of "headers of another branch"
    let other = if len > 6 {
        let at = rng.range(1, len - 2);
        let f = w.chains[0].fork(at, (len - 1 - at) + 1, rng.next_u64() | 1);
        Some(w.add_chain(f))
    } else {
        None
    };
    let npeers = rng.range(1, 3) as usize;
    for i in 0..npeers {
        let ci = if i == 0 || rng.chance(1, 2) { 0 } else { net.add_view(&mut w, rng.range(1, (len / 2).max(1)).min(len - 1)) };
        w.add_peer(ci, false);
    }
    let desc = json!({"seed": seed, "scenario": k, "pow": format!("{:?}", params.pow), "len": len, "last_n": ccfg.last_n, "peers": npeers, "diff_mode": format!("{:?}", params.diff_mode)});
    let mut adv = Adv {
        out,
        k,
        rng: rng.fork(1),
        mutate_pct: *rng.pick(&[30u64, 50, 70]),
        other_chain: other,
        before: None,
        state_before: String::new(),
        latest: HashMap::new(),
        previous: HashMap::new(),
        accepted_invalid: 0,
        judged: 0,
        desc: desc.clone(),
        real_pow: params.pow == super::super::chain::PowKind::Eaglesong,
        fake: HashMap::new(),
        pow_violated: false,
        ps_before: None,
        td_violated: false,
    };
    w.connect_all();
    let phases = rng.range(3, 9);
    for _ in 0..phases {
        for _ in 0..rng.range(2, 8) {
            w.round(&mut adv);
        }
        if w.dead {
            break;
        }
        match rng.below(8) {
            6 | 7 => {
                w.pump(&mut adv, 10_000);
                if w.dead {
                    break;
                }
                let stored = w.c().storage.get_last_n_headers();
                let tipn: u64 = w.c().storage.get_tip_header().raw().number().unpack();
                let cands: Vec<u64> = stored.iter().map(|(n, _)| *n).filter(|n| *n + 1 < w.chains[net.main].tip() && *n >= 1).collect();
                if ccfg.last_n >= 2 && !cands.is_empty() && w.chains[net.main].tip() == tipn {
                    let at = *rng.pick(&cands);
                    let extra = tipn - at + rng.range(1, 3) + ccfg.last_n;
                    net.fork(&mut w, at, extra, rng.next_u64() | 1);
                } else {
                    net.grow(&mut w, 2);
                }
            }
            0 | 1 => net.grow(&mut w, rng.range(1, 12)),
            2 => {
                let g = w.ccfg.last_n + rng.range(0, 3);
                net.grow(&mut w, g)
            }
            3 => {
                if w.restart().is_err() {
                    break;
                }
                net.grow_silent(&mut w, rng.range(1, 30));
                w.connect_all();
            }
            4 => {
                // shallow reorg so that reorg sections are requested
                w.pump(&mut adv, 10_000);
                if w.dead {
                    break;
                }
                let stored = w.c().storage.get_last_n_headers();
                let tipn: u64 = w.c().storage.get_tip_header().raw().number().unpack();
                let cands: Vec<u64> = stored.iter().map(|(n, _)| *n).filter(|n| *n + 1 < w.chains[net.main].tip() && *n >= 1).collect();
                if ccfg.last_n >= 2 && !cands.is_empty() && w.chains[net.main].tip() == tipn {
                    let at = *rng.pick(&cands);
                    let extra = tipn - at + rng.range(1, 3 + ccfg.last_n);
                    net.fork(&mut w, at, extra, rng.next_u64() | 1);
                } else {
                    net.grow(&mut w, 2);
                }
            }
            _ => net.grow(&mut w, rng.range(20, 80)),
        }
        // banned / disconnected peers come back as new sessions
        w.connect_all();
    }
    out.count("scenarios", 1);
    out.count("invalid_messages_judged", adv.judged);
    w.close();
}
