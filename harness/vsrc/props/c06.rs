//! C06 - block filters are acted on only if authentic and attributed to the right block.

use std::collections::HashSet;

use ckb_types::{
    packed::{self, Byte32},
    prelude::*,
};
use serde_json::json;

use super::super::chain::Chain;
use super::super::mutate::rand32;
use super::super::net::{Sent, P};
use super::super::out::{hex, Out, RunCfg};
use super::super::refidx::{self, ST};
use super::super::rng::Rng;
use super::super::world::{Hook, Label, Outcome, Resp, World};
use super::common::*;

const OPS: &[&str] = &[
    "filter-bit-flip", "filter-of-neighbour", "filter-of-quiet-block", "start+1", "start-1", "hash-random", "hash-of-other-height", "hashes-swapped",
    "drop-last-filter", "shorter-batch", "garbage-tail", "filters-swapped", "shift-left-keep-start", "hash-of-other-height-untouched-block",
];

struct Adv<'a> {
    out: &'a Out,
    rng: Rng,
    deviators: HashSet<usize>,
    /// heights whose block touches a registered script
    hot: HashSet<u64>,
    rate: (u64, u64),
    applied: Vec<(String, u64, u64, u64)>,
    last_min: u64,
    ops_allowed: Vec<usize>,
}

impl<'a> Adv<'a> {
    fn mutate(&mut self, chain: &Chain, data: &[u8]) -> Option<(packed::BlockFilterMessage, String, u64, u64)> {
        let m = packed::BlockFilterMessageReader::from_compatible_slice(data).ok()?;
        let bf = match m.to_enum() {
            packed::BlockFilterMessageUnionReader::BlockFilters(r) => r.to_entity(),
            _ => return None,
        };
        let mut start: u64 = bf.start_number().unpack();
        let mut hashes: Vec<Byte32> = bf.block_hashes().into_iter().collect();
        let mut filters: Vec<packed::Bytes> = bf.filters().into_iter().collect();
        let n = filters.len();
        if n == 0 {
            return None;
        }
        // prefer a position whose block touches a registered script
        let hot_pos: Vec<usize> = (0..n).filter(|i| self.hot.contains(&(start + *i as u64))).collect();
        let i = if !hot_pos.is_empty() && self.rng.chance(3, 4) { *self.rng.pick(&hot_pos) } else { self.rng.pick_idx(n) };
        let opi = *self.rng.pick(&self.ops_allowed);
        let op = OPS[opi];
        let at = start + i as u64;
        let mut at2 = at;
        match op {
            "filter-bit-flip" => {
                let mut b = filters[i].raw_data().to_vec();
                if b.is_empty() {
                    b.push(1);
                } else {
                    let p = self.rng.pick_idx(b.len());
                    b[p] ^= 1 << self.rng.below(8);
                }
                filters[i] = b.pack();
            }
            "filter-of-neighbour" => {
                let j = if i + 1 < n { i + 1 } else if i > 0 { i - 1 } else { return None };
                if filters[j].as_slice() == filters[i].as_slice() {
                    return None;
                }
                filters[i] = filters[j].clone();
            }
            "filter-of-quiet-block" => {
                // the authentic filter of a block that touches no registered script
                let cand: Vec<u64> = (1..=chain.tip()).filter(|h| !self.hot.contains(h) && *h != at).collect();
                if cand.is_empty() {
                    return None;
                }
                let f = chain.filters[*self.rng.pick(&cand) as usize].clone();
                if f.as_slice() == filters[i].as_slice() {
                    return None;
                }
                filters[i] = f;
            }
            "start+1" => start += 1,
            "start-1" => start = start.checked_sub(1)?,
            "hash-random" => hashes[i] = Byte32::new(rand32(&mut self.rng)),
            "hash-of-other-height" | "hash-of-other-height-untouched-block" => {
                let tip = chain.tip();
                let mut cand: Vec<u64> = (1..=tip).filter(|h| *h != at).collect();
                if op.ends_with("untouched-block") {
                    cand.retain(|h| !self.hot.contains(h));
                }
                if cand.is_empty() {
                    return None;
                }
                let h = *self.rng.pick(&cand);
                hashes[i] = chain.blocks[h as usize].hash();
                at2 = h;
            }
            "hashes-swapped" => {
                if n < 2 {
                    return None;
                }
                let j = (i + 1 + self.rng.pick_idx(n - 1)) % n;
                at2 = start + j as u64;
                hashes.swap(i, j);
            }
            "drop-last-filter" => {
                filters.pop();
            }
            "shorter-batch" => {
                if n < 2 {
                    return None;
                }
                let keep = self.rng.range(1, n as u64 - 1) as usize;
                filters.truncate(keep);
                hashes.truncate(keep);
            }
            "garbage-tail" => {
                for _ in 0..self.rng.range(1, 4) {
                    filters.push(rand32(&mut self.rng).to_vec().pack());
                    hashes.push(Byte32::new(rand32(&mut self.rng)));
                }
            }
            "filters-swapped" => {
                if n < 2 {
                    return None;
                }
                let j = (i + 1 + self.rng.pick_idx(n - 1)) % n;
                if filters[i].as_slice() == filters[j].as_slice() {
                    return None;
                }
                filters.swap(i, j);
            }
            "shift-left-keep-start" => {
                if n < 2 {
                    return None;
                }
                filters.remove(0);
                hashes.remove(0);
                // every position of the batch is affected
                at2 = start + n as u64;
            }
            _ => return None,
        }
        let c = packed::BlockFilters::new_builder().start_number(start.pack()).block_hashes(hashes.pack()).filters(filters.pack()).build();
        Some((packed::BlockFilterMessage::new_builder().set(c).build(), op.to_string(), at, at2))
    }
}

impl<'a> Hook for Adv<'a> {
    fn respond(&mut self, w: &mut World, pi: usize, _sent: &Sent, honest: Vec<Resp>) -> Vec<Resp> {
        if !self.deviators.contains(&pi) {
            return honest;
        }
        let ci = w.peers[pi].chain;
        let mut outv = vec![];
        for r in honest {
            if r.proto == P::Filter && self.rng.chance(self.rate.0, self.rate.1) {
                if let Some((m, op, at, at2)) = self.mutate(&w.chains[ci].clone(), &r.data) {
                    let hot = self.hot.contains(&at);
                    self.out.cell(&format!("mutated|{}|{}", op, if hot { "script-active-height" } else { "quiet-height" }));
                    self.out.eval(1);
                    self.applied.push((op.clone(), at, at2, w.now));
                    outv.push(Resp { proto: P::Filter, data: m.as_bytes(), label: Label::Invalid(op) });
                    continue;
                }
            }
            outv.push(r);
        }
        outv
    }
    fn after_deliver(&mut self, w: &mut World, _pi: usize, m: &Resp, _o: &Outcome) {
        if m.proto != P::Filter || w.client.is_none() || w.dead {
            return;
        }
        let now = w.c().storage.get_min_filtered_block_number();
        if now != self.last_min {
            self.out.eval(1);
            self.out.cell(&format!("advance|{}", match &m.label { Label::Honest => "honest".to_string(), Label::Invalid(op) => format!("after-{}", op), _ => "other".into() }));
            self.last_min = now;
        }
    }
}

pub fn run(cfg: &RunCfg, out: &Out) {
    for k in 0..cfg.budget {
        if out.time_up() {
            break;
        }
        if let Some(only) = cfg.only_scenario {
            if k != only {
                continue;
            }
        }
        scenario(cfg.scenario_seed(k), k, out);
    }
}

fn scenario(seed: u64, k: u64, out: &Out) {
    let mut rng = Rng::new(seed);
    let (now, base_ts) = time_base();
    let mut params = gen_params(&mut rng, seed, base_ts);
    params.tx_density = *rng.pick(&[25, 50, 80]);
    let len = gen_len(&mut rng).min(160);
    let mut ccfg = gen_ccfg(&mut rng);
    // small check-point intervals exercise both the cached-hash and the latest-hash path
    if rng.chance(1, 2) {
        ccfg.cp_interval = (ccfg.last_n as u64 + 1 + rng.below(12)).max(4);
    }
    // a third of the scenarios: the deviation is in the VOTE - a minority (fewer than the quorum) of proven peers serves a consistent lie:
    // tampered filters at heights that touch a registered script together with block filter hashes and check points that chain over them
    let liar_vote = rng.chance(1, 3);
    if liar_vote {
        ccfg.max_outbound = *rng.pick(&[3u32, 4, 5]);
    }
    let quorum = ((ccfg.max_outbound + 1) / 2) as usize;
    let main = Chain::generate(params.clone(), len);
    let scripts = pick_scripts(&mut rng, &main, rng_range_small(seed), 0);
    if scripts.is_empty() {
        out.count("no_scripts", 1);
        return;
    }
    let mut w = World::new(main, ccfg.clone(), seed, now);
    let (npeers, ndev) = if liar_vote {
        let ndev = rng.range(1, quorum as u64 - 1) as usize;
        let honest = quorum + rng.range(0, 1) as usize;
        (honest + ndev, ndev)
    } else {
        let npeers = rng.range(2, 4) as usize;
        // deviating peers: all but one (the hashes and check points stay honest: the deviation is in BlockFilters only)
        (npeers, rng.range(1, npeers as u64 - 1) as usize)
    };
    // in the liar-vote family the first `ndev` peers are put on the lying view below (peers are only records until connect_all)
    for _ in 0..npeers {
        w.add_peer(0, true);
    }
    let deviators: HashSet<usize> = if liar_vote { HashSet::new() } else { (0..ndev).collect() };
    let regs: Vec<(ckb_types::packed::Script, ST, u64)> = scripts.iter().map(|(s, st, _)| (s.clone(), *st, 0u64)).collect();
    set_scripts(&w, &regs, None);
    let chain = w.chains[0].clone();
    let idx = refidx::build(&chain, chain.tip());
    let mut hot: HashSet<u64> = HashSet::new();
    for (s, st, _) in regs.iter() {
        if let Some(h) = idx.history.get(&(*st, refidx::script_key(s))) {
            for t in h.iter() {
                hot.insert(t.block);
            }
        }
    }
    let mut lied_at: Vec<u64> = vec![];
    if liar_vote {
        let mut liar = chain.clone();
        let mut hot_sorted: Vec<u64> = hot.iter().cloned().filter(|h| *h >= 1).collect();
        hot_sorted.sort();
        let quiet: Vec<u64> = (1..=chain.tip()).filter(|h| !hot.contains(h)).collect();
        if hot_sorted.is_empty() || quiet.is_empty() {
            out.count("liar_vote_not_applicable", 1);
        } else {
            for _ in 0..rng.range(1, 3) {
                let h = *rng.pick(&hot_sorted);
                let f = chain.filters[*rng.pick(&quiet) as usize].clone();
                if f.as_slice() != liar.filters[h as usize].as_slice() {
                    liar.filters[h as usize] = f;
                    lied_at.push(h);
                }
            }
            if let Some(first) = lied_at.iter().min().cloned() {
                // the lie is self-consistent: every filter hash from the first tampered height on is re-chained
                for n in first..=liar.tip() {
                    let parent = liar.filter_hashes[(n - 1) as usize].clone();
                    liar.filter_hashes[n as usize] = ckb_types::utilities::calc_filter_hash(&parent, &liar.filters[n as usize]).pack();
                }
                let lci = w.add_chain(liar);
                for pi in 0..ndev {
                    w.peers[pi].chain = lci;
                    w.peers[pi].honest = false;
                }
                out.cell(&format!("liar-vote|max_outbound={}|liars={}|peers={}", ccfg.max_outbound, ndev, npeers));
                out.count("liar_vote_scenarios", 1);
            }
        }
    }
    let focus = rng.below(4);
    let ops_allowed: Vec<usize> = if focus == 0 { (0..OPS.len()).collect() } else { let a = rng.pick_idx(OPS.len()); let b = rng.pick_idx(OPS.len()); vec![a, b] };
    let rate = *rng.pick(&[(1u64, 1u64), (1, 2), (1, 4)]);
    let desc = json!({"seed": seed, "scenario": k, "len": len, "peers": npeers, "deviators": ndev, "cp_interval": ccfg.cp_interval, "last_n": ccfg.last_n,
        "liar_vote": liar_vote, "scripts": regs.len(), "ops": ops_allowed.iter().map(|i| OPS[*i]).collect::<Vec<_>>(), "rate": format!("{}/{}", rate.0, rate.1)});
    let mut adv = Adv { out, rng: Rng::new(seed ^ 0xc06), deviators, hot: hot.clone(), rate, applied: vec![], last_min: 0, ops_allowed };
    if !lied_at.is_empty() && rng.chance(2, 3) {
        // the liars are there first: for some rounds they are the only proven peers with data (fewer than the quorum)
        for pi in 0..ndev {
            w.connect(pi);
        }
        for _ in 0..rng.range(1, 10) {
            w.round(&mut adv);
        }
        out.cell("liar-vote|liars-connected-first");
    }
    if !lied_at.is_empty() {
        // the honest peers join one by one: for a while the proven peers with data are the liars plus fewer honest peers than the
        // quorum (exactly `quorum` peers with data, not all of them honest), and their vectors have different lengths
        if rng.chance(1, 3) && npeers > ndev + 1 {
            // one honest peer lags a few blocks behind the others
            let lag = rng.range(1, 6).min(chain.tip().saturating_sub(2));
            let mut v = chain.clone();
            v.truncate(chain.tip() - lag);
            let vci = w.add_chain(v);
            w.peers[ndev].chain = vci;
            out.cell("liar-vote|one-honest-peer-lags");
        }
        let mut order: Vec<usize> = (ndev..npeers).collect();
        for i in (1..order.len()).rev() {
            let j = rng.range(0, i as u64) as usize;
            order.swap(i, j);
        }
        if rng.chance(1, 3) {
            // the liars come in between
            for pi in 0..ndev {
                if !w.peers[pi].connected {
                    order.insert(rng.range(0, order.len() as u64) as usize, pi);
                }
            }
        }
        for pi in order {
            if !w.peers[pi].connected {
                w.connect(pi);
            }
            for _ in 0..rng.range(0, 8) {
                w.round(&mut adv);
            }
            if w.dead {
                break;
            }
        }
        out.cell("liar-vote|honest-peers-join-one-by-one");
    }
    w.connect_all();
    let conv = w.run_until(&mut adv, 400, |w| w.converged_on(0)).is_some();
    out.count(if conv { "converged" } else { "not_converged" }, 1);
    if !lied_at.is_empty() {
        // "fewer disagreeing peers than the quorum cannot block agreement among the rest" (bounded: 400 rounds), counted, see DESIGN 10.6
        out.count(if conv { "liar_vote_converged" } else { "liar_vote_not_converged" }, 1);
    }
    if let Some((ctx, p)) = w.panics.first() {
        out.violation("C06.R0", &p.signature("C06", ctx), json!({"scenario": desc, "panic": p.message, "at": p.location, "applied": adv.applied.len()}), k);
        w.close();
        return;
    }
    if w.dead || w.client.is_none() {
        w.close();
        return;
    }
    // oracle (knows nothing of the trick): every script's activity up to the block number the client reports for it is in its answers
    let rpc = w.c().rpc_filter();
    let mut violated = false;
    for (s, st, n) in get_scripts(&w) {
        let n = n.min(chain.tip());
        out.eval(1);
        let got_txs = refidx::rpc_txs(&rpc, &s, st, 50);
        let got_cells = refidx::rpc_cells(&rpc, &s, st, 50);
        let key = (st, refidx::script_key(&s));
        let mut missing: Vec<u64> = vec![];
        // heights whose only missing entries are inputs: (height, creating blocks of the spent outputs)
        let mut input_only: std::collections::HashMap<u64, Vec<u64>> = std::collections::HashMap::new();
        let mut has_output_missing: HashSet<u64> = HashSet::new();
        if let Some(truth) = idx.history.get(&key) {
            for t in truth.iter().filter(|t| t.block >= 1 && t.block <= n) {
                out.eval(1);
                if !got_txs.contains(t) {
                    missing.push(t.block);
                    let mut prev = None;
                    if t.io_type == 0 {
                        let tx = &chain.blocks[t.block as usize].transactions()[t.tx_index as usize];
                        if let Some(op) = tx.input_pts_iter().nth(t.io_index as usize) {
                            prev = chain.txs.get(&op.tx_hash()).map(|(_, b, _)| *b);
                        }
                    }
                    match prev {
                        Some(b) => input_only.entry(t.block).or_default().push(b),
                        None => {
                            has_output_missing.insert(t.block);
                        }
                    }
                }
            }
        }
        // cells: returned ones are live at the reported height or created later than it; live ones created up to n are returned
        let at_n = refidx::build(&chain, n);
        if let Some(truth) = at_n.live.get(&key) {
            for c in truth.iter().filter(|c| c.block >= 1) {
                out.eval(1);
                if !got_cells.contains(c) && idx.live.get(&key).map(|l| l.contains(c)).unwrap_or(false) {
                    missing.push(c.block);
                }
            }
        }
        missing.sort();
        missing.dedup();
        if !missing.is_empty() && !violated {
            violated = true;
            // attribute: the last adversarial operator applied at (or covering) the first skipped height
            let h = missing[0];
            let lied_here = lied_at.contains(&h);
            let direct = if lied_here { Some("consistent-lie-of-a-minority (filters + hashes + check points)".to_string()) } else { None };
            let direct = direct.or_else(|| adv.applied.iter().rev().find(|(op, at, at2, _)| if op == "shift-left-keep-start" { h + 8 >= *at && h <= *at2 } else { *at == h || *at2 == h }).map(|(op, _, _, _)| op.clone()));
            // blocks indexed out of order by a hash substitution: a later spend of a cell of such a block cannot be attributed.
            // This mechanism is recognised by its own evidence (every missing entry at the first skipped height is an input whose
            // creating block was hit by a hash substitution) and takes precedence over "some operator was also applied at that height".
            let tainted = |b: u64| adv.applied.iter().rev().find(|(op, at, at2, _)| op.starts_with("hash") && (*at == b || *at2 == b)).map(|(op, _, _, _)| op.clone());
            let mut later_spend: Option<String> = None;
            if !has_output_missing.contains(&h) {
                if let Some(prevs) = input_only.get(&h) {
                    let ops: Vec<Option<String>> = prevs.iter().map(|b| tainted(*b)).collect();
                    if !ops.is_empty() && ops.iter().all(|o| o.is_some()) {
                        later_spend = Some(format!("{}|later-spend", ops[0].clone().unwrap()));
                    }
                }
            }
            let blame = match (later_spend, direct) {
                (Some(ls), _) => ls,
                (None, Some(op)) => op,
                (None, None) => "unattributed".to_string(),
            };
            out.violation(
                "C06.R1",
                &format!("C06|script-activity-skipped|{}", blame),
                json!({"scenario": desc, "script": hex(&s.as_slice()[..s.as_slice().len().min(24)]), "reported_block_number": n, "skipped_heights": missing.iter().take(8).collect::<Vec<_>>(),
                    "applied": adv.applied.iter().rev().take(12).collect::<Vec<_>>(), "trace": w.trace_vec().into_iter().rev().take(30).collect::<Vec<_>>()}),
                k,
            );
        }
    }
    if conv && !violated {
        let regs2: refidx::Registered = regs.clone();
        let cmp = refidx::compare(&rpc, &chain, chain.tip(), &regs2, &idx);
        out.eval(cmp.cells_checked + cmp.entries_checked);
        if !cmp.ok() {
            let what = if !cmp.missing_cells.is_empty() || !cmp.missing_history.is_empty() { "missing" } else { "extra" };
            let blame = adv.applied.last().map(|(op, _, _, _)| op.clone()).unwrap_or_else(|| "none".into());
            out.violation("C06.R2", &format!("C06|index-differs-at-convergence|{}|{}", what, blame), json!({"scenario": desc, "missing_cells": cmp.missing_cells.len(), "missing_history": cmp.missing_history.len(), "phantom": cmp.phantom_cells.len(), "bogus": cmp.bogus_history.len()}), k);
        }
    }
    out.count("scenarios", 1);
    out.count("mutations_applied", adv.applied.len() as u64);
    out.sample("scenario", 2, || json!({"scenario": desc, "converged": conv, "applied": adv.applied.len()}));
    w.close();
}

fn rng_range_small(seed: u64) -> usize {
    1 + (seed % 3) as usize
}
