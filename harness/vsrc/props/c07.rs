//! C07 - check points are finalized only by quorum agreement and never change afterwards.

use std::collections::{BTreeMap, HashMap};

use ckb_network::PeerIndex;
use ckb_types::{packed::{self, Byte32}, prelude::*};
use serde_json::json;

use super::super::chain::{Chain, ChainParams, DiffMode, PowKind};
use super::super::client::ClientCfg;
use super::super::mutate::rand32;
use super::super::net::P;
use super::super::out::{hex, Out, RunCfg};
use super::super::rng::Rng;
use super::super::server;
use super::super::world::{Label, NoHook, Resp, World};
use super::common::*;

fn stored_cps(w: &World) -> (u32, Vec<Byte32>) {
    let c = w.c();
    let max = c.storage.get_max_check_point_index();
    (max, c.storage.get_check_points(0, max as usize + 1))
}

pub fn run(cfg: &RunCfg, out: &Out) {
    // one chain per shard (cheap to reuse)
    let (now, base_ts) = time_base();
    let params = ChainParams { seed: cfg.shard_seed(), pow: PowKind::Dummy, epoch_len: (10, 20), base_difficulty: ckb_types::U256::from(1000u64), diff_mode: DiffMode::Fixed, tx_density: 10, n_locks: 2, n_types: 0, base_ts, always_success: false, secp: false };
    let chain = Chain::generate(params, 140);
    for k in 0..cfg.budget {
        if out.time_up() {
            break;
        }
        if let Some(only) = cfg.only_scenario {
            if k != only {
                continue;
            }
        }
        scenario(cfg.scenario_seed(k), k, out, &chain, now);
    }
}

struct PeerSim {
    pi: usize,
    id: PeerIndex,
    /// Some(k): deviates from the true value at every index >= k
    deviates_from: Option<u32>,
    salt: u8,
}

fn true_cp(chain: &Chain, iv: u64, idx: u32) -> Option<Byte32> {
    chain.filter_hashes.get((idx as u64 * iv) as usize).cloned()
}

fn peer_cp(chain: &Chain, iv: u64, p: &PeerSim, idx: u32) -> Option<Byte32> {
    let t = true_cp(chain, iv, idx)?;
    match p.deviates_from {
        Some(k) if idx >= k => {
            let mut b = [0u8; 32];
            b.copy_from_slice(t.as_slice());
            b[0] ^= 0x80;
            b[1] = p.salt;
            Some(Byte32::new(b))
        }
        _ => Some(t),
    }
}

fn scenario(seed: u64, k: u64, out: &Out, chain: &Chain, now: u64) {
    let mut rng = Rng::new(seed);
    let iv = *rng.pick(&[4u64, 8, 16]);
    let max_outbound = rng.range(1, 8) as u32;
    let q = ((max_outbound + 1) / 2) as usize;
    let npeers = rng.range(1, 10) as usize;
    let ccfg = ClientCfg { last_n: 3, cp_interval: iv, max_outbound, mmr_epoch: 0, blocks_in_transit: 16 };
    let mut w = World::new(chain.clone(), ccfg, seed, now);
    let tip = chain.tip();
    let tipvh: ckb_types::utilities::merkle_mountain_range::VerifiableHeader = chain.vh(tip).into();
    // deviating peers: fewer than the quorum in most scenarios (then the honest majority must win)
    let n_dev = if rng.chance(3, 4) { rng.below(q as u64) as usize } else { rng.range(q as u64, npeers.max(q) as u64) as usize }.min(npeers);
    let mut sims: Vec<PeerSim> = vec![];
    for i in 0..npeers {
        let pi = w.add_peer(0, i >= n_dev);
        let id = PeerIndex::new(100 + i);
        w.peers[pi].id = id;
        w.peers[pi].connected = true;
        w.c().peers.add_peer(id);
        if w.c().peers.mock_prove_state(id, tipvh.clone()).is_err() {
            w.close();
            return;
        }
        let deviates_from = if i < n_dev { Some(rng.range(1, 8) as u32) } else { None };
        sims.push(PeerSim { pi, id, deviates_from, salt: i as u8 + 1 });
    }
    let desc = json!({"seed": seed, "scenario": k, "interval": iv, "max_outbound": max_outbound, "quorum": q, "peers": npeers, "deviating": n_dev,
        "deviate_from": sims.iter().filter_map(|s| s.deviates_from).collect::<Vec<_>>()});
    // what each peer has been told the client (next start index per peer)
    let mut next_start: HashMap<usize, u32> = sims.iter().map(|s| (s.pi, 0u32)).collect();
    let mut finalized_seen = stored_cps(&w);
    let mut contradicting_since: HashMap<usize, u64> = HashMap::new();
    let steps = rng.range(10, 60);
    for step in 0..steps {
        if w.dead {
            break;
        }
        let churn = rng.below(40);
        if churn == 0 && sims.len() < 14 {
            // a new honest peer is proved in mid-session: its check point vector starts at the client's startup check point,
            // far behind the vectors of the peers that have been drained by earlier finalizations
            let pi = w.add_peer(0, true);
            let id = PeerIndex::new(100 + sims.len());
            w.peers[pi].id = id;
            w.peers[pi].connected = true;
            w.c().peers.add_peer(id);
            if w.c().peers.mock_prove_state(id, tipvh.clone()).is_err() {
                break;
            }
            let start = w.c().peers.get_all_proved_check_points().get(&id).map(|(s, v)| *s + v.len() as u32 - 1).unwrap_or(0);
            next_start.insert(pi, start);
            sims.push(PeerSim { pi, id, deviates_from: None, salt: 0 });
            out.cell(&format!("late-joiner|behind-final-index={}", stored_cps(&w).0 > start));
            continue;
        } else if churn == 1 {
            // a peer leaves
            let live: Vec<usize> = (0..sims.len()).filter(|i| w.peers[sims[*i].pi].connected).collect();
            if live.len() > 1 {
                let s = &sims[*rng.pick(&live)];
                let _ = w.disconnect(s.pi);
                out.cell("peer-left");
            }
            continue;
        } else if churn == 2 {
            // restart: Peers::new starts every vector at the stored last check point; the same peers are proved again
            let before = stored_cps(&w);
            if w.restart().is_err() {
                break;
            }
            let after = stored_cps(&w);
            out.eval(1);
            out.cell("restart");
            if after != before {
                out.violation("C07.R2", "C07|final-check-points-changed-by-restart", json!({"scenario": desc, "before_max": before.0, "after_max": after.0}), k);
            }
            for (i, s) in sims.iter_mut().enumerate() {
                let id = PeerIndex::new(1000 + step as usize * 20 + i);
                s.id = id;
                w.peers[s.pi].id = id;
                w.peers[s.pi].connected = true;
                w.c().peers.add_peer(id);
                if w.c().peers.mock_prove_state(id, tipvh.clone()).is_err() {
                    break;
                }
                let start = w.c().peers.get_all_proved_check_points().get(&id).map(|(s, v)| *s + v.len() as u32 - 1).unwrap_or(0);
                next_start.insert(s.pi, start);
            }
            contradicting_since.clear();
            continue;
        }
        if rng.chance(3, 5) {
            // a check point message from a random peer
            let s = &sims[rng.pick_idx(sims.len())];
            if !w.peers[s.pi].connected {
                continue;
            }
            let ns = next_start[&s.pi];
            let shape = rng.below(10);
            let (start_idx, count): (u32, u32) = match shape {
                0 => (ns, 1),                             // too short
                1 => (ns + 1, rng.range(2, 5) as u32),    // gap
                2 => (ns.saturating_sub(1), rng.range(2, 5) as u32), // overlapping / stale start
                _ => (ns, rng.range(2, 6) as u32),
            };
            let mut hashes = vec![];
            for j in 0..count {
                match peer_cp(chain, iv, s, start_idx + j) {
                    Some(h) => hashes.push(h),
                    None => break,
                }
            }
            if hashes.is_empty() {
                continue;
            }
            let mut start_number = start_idx as u64 * iv;
            if shape == 3 {
                start_number += 1; // unaligned
            }
            if shape == 4 && !hashes.is_empty() && s.deviates_from.is_some() {
                let j = rng.pick_idx(hashes.len());
                hashes[j] = Byte32::new(rand32(&mut rng)); // a one-off lie inside an otherwise consistent vector
            }
            let msg = packed::BlockFilterCheckPoints::new_builder().start_number(start_number.pack()).block_filter_hashes(hashes.clone().pack()).build();
            let before_len = w.c().peers.get_all_proved_check_points().get(&s.id).map(|(_, v)| v.len()).unwrap_or(0);
            let o = w.deliver(s.pi, Resp { proto: P::Filter, data: server::filter_msg(msg), label: Label::Unjudged }, &mut NoHook);
            out.eval(1);
            let after = w.c().peers.get_all_proved_check_points().get(&s.id).cloned();
            if let Some((start, v)) = after {
                if v.len() > before_len {
                    next_start.insert(s.pi, start + v.len() as u32 - 1);
                }
            }
            out.cell(&format!("msg|shape{}|{}|{}", shape.min(5), if s.deviates_from.is_some() { "deviating" } else { "honest" }, if o.banned.is_empty() { "kept" } else { "banned" }));
        } else {
            // a refresh tick: judge the finalization step
            let snapshot = w.c().peers.get_all_proved_check_points();
            let before = stored_cps(&w);
            let o = w.fire(P::Lc, 0, &mut NoHook);
            if w.dead {
                break;
            }
            let after = stored_cps(&w);
            out.eval(1);
            let ctx = json!({"scenario": desc, "step": step, "before_max": before.0, "after_max": after.0,
                "snapshot": snapshot.iter().map(|(id, (s, v))| format!("{}:{}+{}", id, s, v.len())).collect::<Vec<_>>()});
            // R1 / R2
            if after.0 < before.0 {
                out.violation("C07.R1", "C07|final-index-decreased", ctx.clone(), k);
            }
            if after.1.len() < before.1.len() || after.1[..before.1.len()] != before.1[..] {
                out.violation("C07.R2", "C07|final-check-point-rewritten", ctx.clone(), k);
            }
            if finalized_seen.1.len() <= after.1.len() && after.1[..finalized_seen.1.len()] != finalized_seen.1[..] {
                out.violation("C07.R2", "C07|final-check-point-rewritten", ctx.clone(), k);
            }
            // R3: every newly final index is backed by >= q proven peers that agree on it and on everything since `a`
            if after.0 > before.0 {
                let a = before.0;
                let supporters = snapshot
                    .iter()
                    .filter(|(_, (start, v))| {
                        (a..=after.0).all(|i| {
                            if i < *start {
                                return false;
                            }
                            v.get((i - *start) as usize).map(|h| *h == after.1[i as usize]).unwrap_or(false)
                        })
                    })
                    .count();
                out.cell(&format!("advance|q{}|supporters{}|dev{}", q, supporters.min(9), n_dev.min(5)));
                if supporters < q {
                    out.violation("C07.R3", "C07|finalized-without-quorum", { let mut c = ctx.clone(); c["supporters"] = json!(supporters); c }, k);
                }
                // with fewer deviators than the quorum the final values must be the true ones
                if n_dev < q {
                    for i in (a + 1)..=after.0 {
                        if Some(after.1[i as usize].clone()) != true_cp(chain, iv, i) {
                            out.violation("C07.R4", "C07|wrong-value-finalized-by-minority", ctx.clone(), k);
                            break;
                        }
                    }
                }
            } else {
                // R4 progress: >= q honest proven peers know index a+1 (and agree with the final value at a),
                // fewer than q deviators: the tick must advance
                let a = before.0;
                let honest_ready = sims
                    .iter()
                    .filter(|s| s.deviates_from.is_none() && w.peers[s.pi].connected)
                    .filter(|s| snapshot.get(&s.id).map(|(start, v)| *start <= a && v.len() as u32 + *start > a + 1).unwrap_or(false))
                    .count();
                let live_dev = sims.iter().filter(|s| s.deviates_from.is_some() && snapshot.contains_key(&s.id)).count();
                // silent peers (proven but without data yet) only delay agreement; the rule is judged when every
                // honest proven peer already knows index a+1, so that only deviators could be in the way
                let honest_total = sims.iter().filter(|s| s.deviates_from.is_none() && snapshot.contains_key(&s.id)).count();
                out.cell(&format!("no-advance|q{}|honest-ready{}|dev{}", q, honest_ready.min(9), live_dev.min(5)));
                if honest_ready >= q && honest_ready == honest_total && live_dev < q && o.banned.is_empty() {
                    out.violation("C07.R4", "C07|agreement-blocked-by-minority", { let mut c = ctx.clone(); c["honest_ready"] = json!(honest_ready); c["deviators"] = json!(live_dev); c }, k);
                }
            }
            finalized_seen = after.clone();
            // R5: a peer whose vector contradicts a final value is banned at the next effective tick
            let enough = snapshot.len() >= q;
            for s in sims.iter() {
                if !w.peers[s.pi].connected {
                    contradicting_since.remove(&s.pi);
                    continue;
                }
                if let Some((start, v)) = snapshot.get(&s.id) {
                    let idx = before.0;
                    let contradicts = idx >= *start && v.get((idx - *start) as usize).map(|h| *h != before.1[idx as usize]).unwrap_or(false);
                    if contradicts && enough {
                        // it was judged in this very tick: it must be banned now
                        out.eval(1);
                        if !o.banned.iter().any(|(id, _)| *id == s.id) {
                            out.violation("C07.R5", "C07|contradicting-peer-not-banned", { let mut c = ctx.clone(); c["peer"] = json!(format!("{}", s.id)); c }, k);
                        } else {
                            out.cell("contradicting-peer-banned");
                        }
                    }
                }
            }
        }
    }
    out.count("scenarios", 1);
    out.sample("scenario", 2, || json!({"scenario": desc, "final_max_index": stored_cps(&w).0}));
    let _: Option<(BTreeMap<u8, u8>, String)> = Some((BTreeMap::new(), hex(&[])));
    w.close();
}
