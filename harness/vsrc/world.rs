//! The simulated world: one client under test, simulated peers serving chains, virtual time and a
//! scheduler. Property workloads drive it through `Hook`s.

use std::collections::{HashMap, VecDeque};
use std::path::PathBuf;

use ckb_chain_spec::consensus::Consensus;
use ckb_network::{bytes::Bytes as P2pBytes, PeerIndex, SupportProtocols};
use ckb_types::{core::BlockView, packed, prelude::*, U256};

use super::chain::Chain;
use super::client::{self, Client, ClientCfg};
use super::net::{Sent, P};
use super::rng::Rng;
use super::server::{self, ServerOpts, FILTER, LC, SYNC};
use super::util::{PanicInfo, Unwound, LONG_FORK_PANIC};

#[derive(Clone, Debug, PartialEq, Eq)]
pub enum Label {
    Honest,
    Invalid(String),
    Unjudged,
}

#[derive(Clone, Debug)]
pub struct Resp {
    pub proto: P,
    pub data: P2pBytes,
    pub label: Label,
}

impl Resp {
    pub fn honest(proto: P, data: P2pBytes) -> Self {
        Resp { proto, data, label: Label::Honest }
    }
    pub fn invalid(proto: P, data: P2pBytes, op: &str) -> Self {
        Resp { proto, data, label: Label::Invalid(op.to_string()) }
    }
}

pub struct SimPeer {
    pub id: PeerIndex,
    pub chain: usize,
    pub connected: bool,
    pub subscribed: bool,
    pub opts: ServerOpts,
    pub inbox: VecDeque<Resp>,
    pub honest: bool,
    pub banned: bool,
    /// the peer does not answer (used for timeouts)
    pub mute: bool,
    /// fault injection: the session is closing (sends to it fail), see World::start_closing
    pub closing: bool,
}

#[derive(Default, Clone, Debug)]
pub struct Outcome {
    pub banned: Vec<(PeerIndex, String)>,
    pub disconnected: Vec<(PeerIndex, String)>,
    pub panic: Option<PanicInfo>,
    pub crashed: Option<(u64, &'static str)>,
}

pub trait Hook {
    /// the client sent `sent` to peer `pi`; `honest` is what the peer's honest server answers
    fn respond(&mut self, _w: &mut World, _pi: usize, _sent: &Sent, honest: Vec<Resp>) -> Vec<Resp> {
        honest
    }
    fn before_deliver(&mut self, _w: &mut World, _pi: usize, _m: &Resp) {}
    fn after_deliver(&mut self, _w: &mut World, _pi: usize, _m: &Resp, _o: &Outcome) {}
    fn after_timer(&mut self, _w: &mut World, _proto: P, _token: u64, _o: &Outcome) {}
    /// every outbound client message, before routing
    fn on_sent(&mut self, _w: &mut World, _sent: &Sent) {}
}

pub struct NoHook;
impl Hook for NoHook {}

pub struct World {
    pub client: Option<Client>,
    pub dir: PathBuf,
    pub genesis: BlockView,
    pub consensus: Consensus,
    pub ccfg: ClientCfg,
    pub chains: Vec<Chain>,
    pub peers: Vec<SimPeer>,
    pub now: u64,
    pub round_no: u64,
    pub rng: Rng,
    pub timer_fast: bool,
    last_fire: HashMap<(u8, u64), u64>,
    last_ask_seen: Option<std::time::Instant>,
    last_ask_virtual: u64,
    pub panics: Vec<(String, PanicInfo)>,
    pub dead: bool,
    pub bans: Vec<(PeerIndex, String)>,
    pub disconnects: Vec<(PeerIndex, String)>,
    pub delivered: u64,
    pub activity: u64,
    pub trace: VecDeque<String>,
    pub trace_cap: usize,
    next_peer_id: usize,
}

/// faketime is process-global; the guard is never dropped so that it is never switched off
pub fn set_virtual_time(now: u64) {
    let g = ckb_systemtime::faketime();
    g.set_faketime(now);
    std::mem::forget(g);
}

fn proto_code(p: P) -> u8 {
    p.code()
}

impl World {
    pub fn new(chain: Chain, ccfg: ClientCfg, seed: u64, now: u64) -> World {
        set_virtual_time(now);
        let genesis = chain.genesis();
        let consensus = chain.consensus();
        let dir = client::fresh_dir();
        // the very first open may be interrupted by an injected crash (C08): the world then starts "dead"
        let (client, dead) = match super::util::guarded(|| Client::open(&dir, &genesis, &consensus, &ccfg)) {
            Ok(c) => (Some(c), false),
            Err(Unwound::Crash(..)) => (None, true),
            Err(Unwound::Panic(p)) => panic!("client does not open: {} at {}", p.message, p.location),
            Err(Unwound::Abort) => (None, true),
        };
        World {
            client,
            dir,
            genesis,
            consensus,
            ccfg,
            chains: vec![chain],
            peers: vec![],
            now,
            round_no: 0,
            rng: Rng::new(seed),
            timer_fast: true,
            last_fire: HashMap::new(),
            last_ask_seen: None,
            last_ask_virtual: now,
            panics: vec![],
            dead,
            bans: vec![],
            disconnects: vec![],
            delivered: 0,
            activity: 0,
            trace: VecDeque::new(),
            trace_cap: std::env::var("VERIF_TRACE_CAP").ok().and_then(|v| v.parse().ok()).unwrap_or(80),
            next_peer_id: 1,
        }
    }

    pub fn log_event(&mut self, s: String) {
        if self.trace.len() >= self.trace_cap {
            self.trace.pop_front();
        }
        self.trace.push_back(format!("t={} {}", (self.now / 1000) % 100000, s));
    }
    pub fn trace_vec(&self) -> Vec<String> {
        self.trace.iter().cloned().collect()
    }

    pub fn c(&self) -> &Client {
        self.client.as_ref().expect("client is open")
    }
    pub fn cm(&mut self) -> &mut Client {
        self.client.as_mut().expect("client is open")
    }

    pub fn set_now(&mut self, now: u64) {
        self.now = now;
        set_virtual_time(now);
    }
    pub fn advance(&mut self, ms: u64) {
        let n = self.now + ms;
        self.set_now(n);
    }

    pub fn add_chain(&mut self, c: Chain) -> usize {
        self.chains.push(c);
        self.chains.len() - 1
    }

    pub fn add_peer(&mut self, chain: usize, honest: bool) -> usize {
        let id = PeerIndex::new(self.next_peer_id);
        self.next_peer_id += 1;
        self.peers.push(SimPeer {
            id,
            chain,
            connected: false,
            subscribed: false,
            opts: ServerOpts::new(self.ccfg.cp_interval),
            inbox: VecDeque::new(),
            honest,
            banned: false,
            mute: false,
            closing: false,
        });
        self.peers.len() - 1
    }

    pub fn peer_index_of(&self, id: PeerIndex) -> Option<usize> {
        self.peers.iter().position(|p| p.id == id)
    }

    fn absorb(&mut self, res: Result<(), Unwound>, ctx: &str) -> Outcome {
        let mut o = Outcome::default();
        match res {
            Ok(()) => {}
            Err(Unwound::Panic(info)) => {
                self.panics.push((ctx.to_string(), info.clone()));
                self.dead = true;
                o.panic = Some(info);
            }
            Err(Unwound::Crash(k, site)) => {
                self.dead = true;
                o.crashed = Some((k, site));
            }
            Err(Unwound::Abort) => {
                self.dead = true;
            }
        }
        if self.client.is_none() {
            return o;
        }
        let bans = self.c().log.take_bans();
        let discs = self.c().log.take_disconnects();
        for (_, id, reason) in bans {
            o.banned.push((id, reason.clone()));
            self.bans.push((id, reason));
            self.drop_peer_session(id, true);
        }
        for (_, id, reason) in discs {
            o.disconnected.push((id, reason.clone()));
            self.disconnects.push((id, reason));
            self.drop_peer_session(id, false);
        }
        o
    }

    /// what tentacle does after a ban / disconnect: close the session, `disconnected()` on all handlers
    fn drop_peer_session(&mut self, id: PeerIndex, banned: bool) {
        if let Some(pi) = self.peer_index_of(id) {
            let was = self.peers[pi].connected;
            self.peers[pi].connected = false;
            self.peers[pi].subscribed = false;
            self.peers[pi].inbox.clear();
            if banned {
                self.peers[pi].banned = true;
            }
            if was && !self.dead {
                let r = self.cm().disconnected(id);
                self.c().log.remove_peer(id);
                if let Err(Unwound::Panic(info)) = r {
                    self.panics.push(("disconnected".into(), info));
                    self.dead = true;
                }
            }
        }
    }

    pub fn connect(&mut self, pi: usize) -> Outcome {
        // a reconnect is a new session
        if self.peers[pi].banned {
            self.peers[pi].banned = false;
        }
        let id = PeerIndex::new(self.next_peer_id);
        self.next_peer_id += 1;
        self.peers[pi].id = id;
        self.peers[pi].connected = true;
        self.peers[pi].inbox.clear();
        if self.peers[pi].closing {
            self.peers[pi].closing = false;
            self.peers[pi].mute = false;
        }
        let r = self.cm().connected(id);
        self.absorb(r, "connected")
    }

    /// Fault injection: the session of peer `pi` starts closing - from now on every message the client sends to it fails with an error
    /// and is lost, the peer sends nothing more; the `disconnected` callback arrives when the caller invokes `disconnect(pi)` (tentacle
    /// reports the closed session a little later than the failing sends).
    pub fn start_closing(&mut self, pi: usize) {
        if !self.peers[pi].connected || self.client.is_none() {
            return;
        }
        let id = self.peers[pi].id;
        self.c().log.set_failing(id);
        self.peers[pi].inbox.clear();
        self.peers[pi].mute = true;
        self.peers[pi].closing = true;
        self.log_event(format!("t={} FAULT session of {:?} is closing: sends fail from now on", self.round_no, id));
    }

    pub fn disconnect(&mut self, pi: usize) -> Outcome {
        let id = self.peers[pi].id;
        if !self.peers[pi].connected {
            return Outcome::default();
        }
        self.peers[pi].connected = false;
        self.peers[pi].subscribed = false;
        self.peers[pi].inbox.clear();
        let r = self.cm().disconnected(id);
        self.c().log.remove_peer(id);
        self.absorb(r, "disconnected")
    }

    pub fn fire(&mut self, proto: P, token: u64, hook: &mut dyn Hook) -> Outcome {
        if self.dead {
            return Outcome::default();
        }
        let r = self.cm().notify(proto, token);
        let o = self.absorb(r, &format!("notify:{}:{}", proto_code(proto), token));
        for (p, why) in o.banned.iter() {
            self.log_event(format!("timer {:?}/{} BAN {} {}", proto, token, p, why.chars().take(160).collect::<String>()));
        }
        for (p, why) in o.disconnected.iter() {
            self.log_event(format!("timer {:?}/{} DISCONNECT {} {}", proto, token, p, why));
        }
        hook.after_timer(self, proto, token, &o);
        o
    }

    fn maintain_last_ask(&mut self) {
        // FilterProtocol.last_ask_time is an Instant: emulate its 15 s timeout in virtual time
        let cur = *self.c().filter.last_ask_time.read().unwrap();
        if cur != self.last_ask_seen {
            self.last_ask_seen = cur;
            self.last_ask_virtual = self.now;
        }
        let expire = if self.timer_fast { true } else { self.now >= self.last_ask_virtual + 15_000 };
        if cur.is_some() && expire {
            *self.c().filter.last_ask_time.write().unwrap() = None;
            self.last_ask_seen = None;
        }
    }

    pub fn fire_due(&mut self, hook: &mut dyn Hook) {
        self.maintain_last_ask();
        let table: [(P, u64, u64); 6] =
            [(LC, 0, 8000), (LC, 1, 3000), (LC, 2, 3000), (FILTER, 0, 3000), (FILTER, 1, 10_000), (FILTER, 2, 30_000)];
        for (proto, token, period) in table {
            if self.dead {
                return;
            }
            let key = (proto_code(proto), token);
            let last = self.last_fire.get(&key).cloned().unwrap_or(0);
            if self.timer_fast || self.now >= last + period {
                self.last_fire.insert(key, self.now);
                self.fire(proto, token, hook);
            }
        }
    }

    /// Route every outbound client message to its peer; the (possibly altered) answers are queued.
    pub fn route(&mut self, hook: &mut dyn Hook) -> usize {
        if self.client.is_none() {
            return 0;
        }
        let out = self.c().log.take_outbox();
        let n = out.len();
        for sent in out {
            self.activity += 1;
            if let Some(p) = P::of(sent.proto) {
                let d = server::describe(p, &sent.data);
                self.log_event(format!("client -> {}: {}", sent.peer, d));
            }
            hook.on_sent(self, &sent);
            let pi = match self.peer_index_of(sent.peer) {
                Some(pi) => pi,
                None => continue,
            };
            if !self.peers[pi].connected {
                continue;
            }
            let mut honest: Vec<Resp> = vec![];
            if !self.peers[pi].mute {
                let p = &self.peers[pi];
                let chain = &self.chains[p.chain];
                for (proto, data) in server::serve(chain, &p.opts, sent.proto, &sent.data) {
                    honest.push(Resp::honest(proto, data));
                }
            }
            if sent.proto == LC.id() {
                if let Ok(m) = packed::LightClientMessageReader::from_compatible_slice(&sent.data) {
                    if let packed::LightClientMessageUnionReader::GetLastState(r) = m.to_enum() {
                        let s: bool = r.subscribe().unpack();
                        self.peers[pi].subscribed = s;
                    }
                }
            }
            let resps = hook.respond(self, pi, &sent, honest);
            if self.peers[pi].connected {
                self.peers[pi].inbox.extend(resps);
            }
        }
        n
    }

    pub fn deliver(&mut self, pi: usize, m: Resp, hook: &mut dyn Hook) -> Outcome {
        if self.dead || !self.peers[pi].connected {
            return Outcome::default();
        }
        hook.before_deliver(self, pi, &m);
        let id = self.peers[pi].id;
        self.delivered += 1;
        self.activity += 1;
        let d = server::describe(m.proto, &m.data);
        let lab = match &m.label {
            Label::Honest => String::new(),
            Label::Invalid(op) => format!(" [INVALID {}]", op),
            Label::Unjudged => " [unjudged]".to_string(),
        };
        self.log_event(format!("{} -> client: {}{}", id, d, lab));
        let r = self.cm().received(m.proto, id, m.data.clone());
        let o = self.absorb(r, &format!("received:{}", proto_code(m.proto)));
        for (p, why) in o.banned.iter() {
            self.log_event(format!("BAN {} {}", p, why.chars().take(160).collect::<String>()));
        }
        for (p, why) in o.disconnected.iter() {
            self.log_event(format!("DISCONNECT {} {}", p, why));
        }
        hook.after_deliver(self, pi, &m, &o);
        o
    }

    /// deliver queued messages until everything is quiet (FIFO per peer, peers interleaved randomly)
    pub fn pump(&mut self, hook: &mut dyn Hook, cap: u64) -> u64 {
        let mut n = 0;
        loop {
            if self.dead {
                return n;
            }
            self.route(hook);
            let ready: Vec<usize> =
                (0..self.peers.len()).filter(|i| self.peers[*i].connected && !self.peers[*i].inbox.is_empty()).collect();
            if ready.is_empty() {
                return n;
            }
            let pi = ready[self.rng.pick_idx(ready.len())];
            let m = self.peers[pi].inbox.pop_front().unwrap();
            self.deliver(pi, m, hook);
            n += 1;
            if n >= cap {
                return n;
            }
        }
    }

    pub fn round(&mut self, hook: &mut dyn Hook) -> u64 {
        if self.dead {
            return 0;
        }
        self.round_no += 1;
        self.advance(1000);
        let before = self.activity;
        self.fire_due(hook);
        self.pump(hook, 10_000);
        if std::env::var("VERIF_DEBUG_MATCHED").is_ok() && self.client.is_some() && !self.dead {
            let c = self.c();
            let mem: Vec<String> = c.peers.matched_blocks().read().map(|m| m.iter().map(|(k, (p, b))| format!("{:x}:{}:{}", k, p, b.is_some()).chars().skip(0).take(8).collect::<String>() + &format!(":{}:{}", p, b.is_some())).collect()).unwrap_or_default();
            let line = format!("STATE min_filtered {} earliest {:?} latest {:?} scripts {:?} memory {:?}", c.storage.get_min_filtered_block_number(),
                c.storage.get_earliest_matched_blocks().map(|(s, n, v)| (s, n, v.iter().map(|(_, p)| *p).collect::<Vec<_>>())), c.storage.get_latest_matched_blocks().map(|(s, n, v)| (s, n, v.len())),
                c.storage.get_filter_scripts().iter().map(|s| s.block_number).collect::<Vec<_>>(), mem);
            self.log_event(line);
        }
        self.activity - before
    }

    /// chain `ci` grows by `n` blocks; subscribed peers push their new last state
    pub fn grow_chain(&mut self, ci: usize, n: u64) {
        self.chains[ci].grow(n);
        self.announce(ci);
    }

    pub fn announce(&mut self, ci: usize) {
        let m = server::lc_msg(server::last_state(&self.chains[ci]));
        for p in self.peers.iter_mut() {
            if p.chain == ci && p.connected && p.subscribed && !p.mute {
                p.inbox.push_back(Resp::honest(LC, m.clone()));
            }
        }
    }

    pub fn switch_peer_chain(&mut self, pi: usize, ci: usize) {
        self.peers[pi].chain = ci;
        if self.peers[pi].connected && self.peers[pi].subscribed {
            let m = server::lc_msg(server::last_state(&self.chains[ci]));
            self.peers[pi].inbox.push_back(Resp::honest(LC, m));
        }
    }

    /// Close the client (all handles) and reopen from disk, as a process restart does.
    pub fn restart(&mut self) -> Result<(), PanicInfo> {
        self.client = None;
        for p in self.peers.iter_mut() {
            p.connected = false;
            p.subscribed = false;
            p.inbox.clear();
        }
        self.dead = false;
        let (dir, genesis, consensus, ccfg) = (self.dir.clone(), self.genesis.clone(), self.consensus.clone(), self.ccfg.clone());
        match super::util::guarded(|| Client::open(&dir, &genesis, &consensus, &ccfg)) {
            Ok(c) => {
                self.client = Some(c);
                self.last_ask_seen = None;
                Ok(())
            }
            Err(Unwound::Panic(info)) => {
                self.dead = true;
                Err(info)
            }
            Err(_) => {
                self.dead = true;
                Err(PanicInfo {
                    message: "injected fault during open".into(),
                    location: String::new(),
                    repo_frame: (String::new(), String::new()),
                    backtrace_head: vec![],
                })
            }
        }
    }

    pub fn connect_all(&mut self) {
        for pi in 0..self.peers.len() {
            if !self.peers[pi].connected {
                self.connect(pi);
            }
        }
    }

    pub fn heaviest_chain(&self) -> usize {
        let mut best = 0usize;
        let mut best_td = U256::zero();
        for p in self.peers.iter().filter(|p| p.connected) {
            let c = &self.chains[p.chain];
            let td = c.td(c.tip());
            if td > best_td {
                best_td = td;
                best = p.chain;
            }
        }
        best
    }

    pub fn tip_hash(&self) -> packed::Byte32 {
        self.c().storage.get_tip_header().calc_header_hash()
    }

    pub fn matched_pending(&self) -> bool {
        let c = self.c();
        c.storage.get_earliest_matched_blocks().is_some() || !c.peers.matched_blocks().read().map(|m| m.is_empty()).unwrap_or(true)
    }

    /// DESIGN appendix F: tip = heaviest tip of `ci`, filter sync caught up, nothing pending
    pub fn converged_on(&self, ci: usize) -> bool {
        if self.dead || self.client.is_none() {
            return false;
        }
        let chain = &self.chains[ci];
        if self.tip_hash() != chain.tip_hash() {
            return false;
        }
        let c = self.c();
        if c.storage.is_filter_scripts_empty() {
            return true;
        }
        c.storage.get_min_filtered_block_number() == chain.tip() && !self.matched_pending()
    }

    /// run rounds until `pred` or `max_rounds`; returns rounds used (None = not reached)
    pub fn run_until(&mut self, hook: &mut dyn Hook, max_rounds: u64, mut pred: impl FnMut(&World) -> bool) -> Option<u64> {
        for r in 0..max_rounds {
            if pred(self) {
                return Some(r);
            }
            if self.dead {
                return None;
            }
            self.round(hook);
        }
        if pred(self) {
            Some(max_rounds)
        } else {
            None
        }
    }

    pub fn long_fork_panicked(&self) -> bool {
        self.panics.iter().any(|(_, p)| p.message.contains(LONG_FORK_PANIC))
    }

    pub fn close(&mut self) {
        self.client = None;
        let _ = std::fs::remove_dir_all(&self.dir);
    }
}

impl Drop for World {
    fn drop(&mut self) {
        self.client = None;
        let _ = std::fs::remove_dir_all(&self.dir);
    }
}


