//! SimChain: seeded generator of chains and forks with ground truth the oracles need.

use std::collections::{BTreeMap, HashMap};
use std::sync::Mutex;

use ckb_chain_spec::consensus::{build_genesis_epoch_ext, Consensus, ConsensusBuilder};
use ckb_merkle_mountain_range::{leaf_index_to_mmr_size, leaf_index_to_pos, MMRStore, Result as MMRResult};
use ckb_pow::Pow;
use ckb_types::{
    bytes::Bytes,
    core::{
        BlockBuilder, BlockView, Capacity, EpochNumberWithFraction, HeaderBuilder, ScriptHashType,
        TransactionBuilder, TransactionView,
    },
    packed::{self, Byte32, CellInput, CellOutput, CellOutputBuilder, OutPoint, Script},
    prelude::*,
    utilities::{
        build_filter_data, calc_filter_hash, compact_to_difficulty, difficulty_to_compact,
        merkle_mountain_range::ChainRootMMR, FilterDataProvider,
    },
    H256, U256,
};

use super::rng::{mix, Rng};

pub struct VStore(pub Mutex<BTreeMap<u64, packed::HeaderDigest>>);

impl Clone for VStore {
    fn clone(&self) -> Self {
        VStore(Mutex::new(self.0.lock().unwrap().clone()))
    }
}
impl Default for VStore {
    fn default() -> Self {
        VStore(Mutex::new(BTreeMap::new()))
    }
}
impl MMRStore<packed::HeaderDigest> for &VStore {
    fn get_elem(&self, pos: u64) -> MMRResult<Option<packed::HeaderDigest>> {
        Ok(self.0.lock().unwrap().get(&pos).cloned())
    }
    fn append(&mut self, pos: u64, elems: Vec<packed::HeaderDigest>) -> MMRResult<()> {
        let mut g = self.0.lock().unwrap();
        for (i, e) in elems.into_iter().enumerate() {
            g.insert(pos + i as u64, e);
        }
        Ok(())
    }
}

#[derive(Clone, Copy, Debug, PartialEq, Eq)]
pub enum PowKind {
    Eaglesong,
    Dummy,
}

#[derive(Clone, Copy, Debug, PartialEq, Eq)]
pub enum DiffMode {
    Fixed,
    /// epoch difficulty moves by a random legal ratio every epoch
    Walk,
    /// epoch difficulty moves by exactly tau (up/down) whenever possible
    Extreme,
    /// NOT a legal history: in about a third of the epochs the epoch difficulty jumps by a factor 3..8 up or down (otherwise Walk).
    /// Such a chain is mined, self-consistent and provable, but its sampled end points fail the client's tau check, which makes the
    /// client ask a second time with the tau check switched off (the "RequireRecheck" path). Never used where honest peers must
    /// not be rejected (C05 quantifies over legal histories only).
    Jump,
}

#[derive(Clone, Debug)]
pub struct ChainParams {
    pub seed: u64,
    pub pow: PowKind,
    pub epoch_len: (u64, u64),
    pub base_difficulty: U256,
    pub diff_mode: DiffMode,
    /// percent chance that a block carries non-cellbase transactions
    pub tx_density: u64,
    pub n_locks: usize,
    pub n_types: usize,
    pub base_ts: u64,
    /// put the always-success cell into genesis (C18)
    pub always_success: bool,
    /// also deploy the real secp256k1_blake160_sighash_all lock (code cell + data cell, genesis cellbase outputs 4 and 5)
    /// and lock half of the generated outputs with it (C18: script verification that depends on the witness)
    pub secp: bool,
}

/// the bundled system script binaries (ckb-system-scripts through ckb-resource): (sighash_all code, secp256k1 data)
pub fn secp_bins() -> &'static (Bytes, Bytes) {
    static CELLS: std::sync::OnceLock<(Bytes, Bytes)> = std::sync::OnceLock::new();
    CELLS.get_or_init(|| {
        let get = |name: &str| Bytes::from(ckb_resource::Resource::bundled(format!("specs/cells/{}", name)).get().expect("bundled system cell").into_owned());
        (get("secp256k1_blake160_sighash_all"), get("secp256k1_data"))
    })
}

pub fn secp_privkey(which: u8) -> ckb_crypto::secp::Privkey {
    ckb_crypto::secp::Privkey::from_slice(&[which.wrapping_add(7); 32])
}

/// the sighash_all lock (referenced by data hash) of key `which`
pub fn secp_lock(which: u8) -> Script {
    let pk = secp_privkey(which).pubkey().expect("pubkey").serialize();
    let args = Bytes::from(ckb_hash::blake2b_256(&pk)[0..20].to_vec());
    Script::new_builder().hash_type(ScriptHashType::Data.into()).code_hash(CellOutput::calc_data_hash(&secp_bins().0)).args(args.pack()).build()
}

impl ChainParams {
    pub fn simple(seed: u64, base_ts: u64) -> Self {
        ChainParams {
            seed,
            pow: PowKind::Eaglesong,
            epoch_len: (5, 9),
            base_difficulty: U256::from(8u64),
            diff_mode: DiffMode::Walk,
            tx_density: 40,
            n_locks: 4,
            n_types: 2,
            base_ts,
            always_success: false,
            secp: false,
        }
    }
}

#[derive(Clone, Debug)]
pub struct EpochInfo {
    pub number: u64,
    pub start: u64,
    pub length: u64,
    pub compact: u32,
    pub block_difficulty: U256,
}

#[derive(Clone, Debug)]
pub struct LiveCell {
    pub out_point: OutPoint,
    pub output: CellOutput,
    pub data: Bytes,
    pub block: u64,
    pub tx_index: u32,
}

#[derive(Clone)]
pub struct Chain {
    pub params: ChainParams,
    pub epochs: Vec<EpochInfo>,
    pub blocks: Vec<BlockView>,
    pub tds: Vec<U256>,
    pub store: VStore,
    pub filters: Vec<packed::Bytes>,
    pub filter_hashes: Vec<Byte32>,
    /// tx hash -> (tx, block number, tx index)
    pub txs: HashMap<Byte32, (TransactionView, u64, u32)>,
    pub hash_to_num: HashMap<Byte32, u64>,
    /// spendable outputs (for the generator)
    pub live: Vec<OutPoint>,
    pub branch_salt: u64,
    /// epoch at which the chain root commitment starts: blocks whose epoch is not after (mmr_epoch, 0/1) carry no extension
    pub mmr_epoch: u64,
}

pub const CODE_HASH_A: [u8; 32] = [7u8; 32];
pub const CODE_HASH_B: [u8; 32] = [9u8; 32];

/// Script universe: scripts sharing code hash and args prefixes (incl. empty args) on purpose.
pub fn lock_script(i: usize) -> Script {
    let args: Vec<u8> = match i % 8 {
        0 => vec![],
        1 => vec![0x00],
        2 => vec![0x00, 0xff],
        3 => vec![0x00, 0x00],
        4 => vec![0x01],
        5 => vec![0x00, 0xff, 0x01],
        6 => vec![0xab; 20],
        _ => vec![0x00, 0x00, 0x00, 0x00, 0x00, 0x00, 0x00, 0x00],
    };
    let (code, ht) = match (i / 8) % 3 {
        0 => (CODE_HASH_A, ScriptHashType::Data),
        1 => (CODE_HASH_A, ScriptHashType::Type),
        _ => (CODE_HASH_B, ScriptHashType::Data1),
    };
    Script::new_builder().code_hash(H256(code).pack()).hash_type(ht.into()).args(args.pack()).build()
}

pub fn type_script(i: usize) -> Script {
    let args: Vec<u8> = match i % 4 {
        0 => vec![],
        1 => vec![0x00],
        2 => vec![0x00, 0x01],
        _ => vec![0x77; 4],
    };
    Script::new_builder()
        .code_hash(H256([0x42u8; 32]).pack())
        .hash_type(ScriptHashType::Type.into())
        .args(args.pack())
        .build()
}

struct Prov<'a>(&'a HashMap<Byte32, (TransactionView, u64, u32)>, &'a [TransactionView]);
impl<'a> FilterDataProvider for Prov<'a> {
    fn cell(&self, op: &OutPoint) -> Option<CellOutput> {
        let h = op.tx_hash();
        let idx: usize = op.index().unpack();
        if let Some((tx, _, _)) = self.0.get(&h) {
            return tx.outputs().get(idx);
        }
        self.1.iter().find(|t| t.hash() == h).and_then(|t| t.outputs().get(idx))
    }
}

pub fn roundtrip_difficulty(d: &U256) -> (u32, U256) {
    let c = difficulty_to_compact(d.clone());
    (c, compact_to_difficulty(c))
}

pub fn pow_of(kind: PowKind) -> Pow {
    match kind {
        PowKind::Eaglesong => Pow::EaglesongBlake2b,
        PowKind::Dummy => Pow::Dummy,
    }
}

pub fn mine_block(kind: PowKind, b: BlockView, salt: u64) -> BlockView {
    match kind {
        PowKind::Dummy => {
            // nonce still participates in the hash: make branches differ
            let h = b.header().as_advanced_builder().nonce((salt as u128).pack()).build();
            b.as_advanced_builder().header(h).build()
        }
        PowKind::Eaglesong => {
            let pow = Pow::EaglesongBlake2b;
            let eng = pow.engine();
            let mut n: u128 = (salt as u128) << 32;
            loop {
                let h = b.header().as_advanced_builder().nonce(n.pack()).build();
                if eng.verify(&h.data()) {
                    return b.as_advanced_builder().header(h).build();
                }
                n += 1;
            }
        }
    }
}

/// A header with a nonce that does NOT satisfy PoW (only meaningful under Eaglesong).
/// None when no such nonce is found quickly (difficulty 1: every nonce is a solution).
pub fn unmine(b: &BlockView) -> Option<BlockView> {
    let pow = Pow::EaglesongBlake2b;
    let eng = pow.engine();
    let mut n: u128 = 1 << 100;
    for _ in 0..256 {
        let h = b.header().as_advanced_builder().nonce(n.pack()).build();
        if !eng.verify(&h.data()) {
            return Some(b.as_advanced_builder().header(h).build());
        }
        n += 1;
    }
    None
}

impl Chain {
    pub fn new(params: ChainParams) -> Chain {
        let mut c = Chain {
            params,
            epochs: vec![],
            blocks: vec![],
            tds: vec![],
            store: VStore::default(),
            filters: vec![],
            filter_hashes: vec![],
            txs: HashMap::new(),
            hash_to_num: HashMap::new(),
            live: vec![],
            branch_salt: 0,
            mmr_epoch: 0,
        };
        c.push_block(0);
        c
    }

    /// a chain on which the MMR (chain root commitment in the extension) is activated at epoch `mmr_epoch`
    pub fn generate_with_mmr_epoch(params: ChainParams, len: u64, mmr_epoch: u64) -> Chain {
        let mut c = Chain::new(params);
        c.mmr_epoch = mmr_epoch;
        c.grow(len.saturating_sub(1));
        c
    }

    pub fn generate(params: ChainParams, len: u64) -> Chain {
        let mut c = Chain::new(params);
        c.grow(len.saturating_sub(1));
        c
    }

    pub fn tip(&self) -> u64 {
        self.blocks.len() as u64 - 1
    }
    pub fn tip_hash(&self) -> Byte32 {
        self.blocks.last().unwrap().hash()
    }
    pub fn num_of(&self, hash: &Byte32) -> Option<u64> {
        self.hash_to_num.get(hash).cloned()
    }
    pub fn td(&self, n: u64) -> U256 {
        self.tds[n as usize].clone()
    }
    pub fn genesis(&self) -> BlockView {
        self.blocks[0].clone()
    }

    pub fn consensus(&self) -> Consensus {
        let genesis = self.genesis();
        let e0 = &self.epochs[0];
        let epoch_ext = build_genesis_epoch_ext(
            Capacity::shannons(1_000_000),
            genesis.compact_target(),
            e0.length,
            4 * 60 * 60,
            (1, 40),
        );
        ConsensusBuilder::new(genesis, epoch_ext).pow(pow_of(self.params.pow)).build()
    }

    fn epoch_for(&mut self, n: u64) -> EpochInfo {
        loop {
            if let Some(last) = self.epochs.last() {
                if n < last.start + last.length {
                    // find (usually the last)
                    for e in self.epochs.iter().rev() {
                        if n >= e.start {
                            return e.clone();
                        }
                    }
                }
            }
            self.push_epoch();
        }
    }

    fn push_epoch(&mut self) {
        let p = &self.params;
        let idx = self.epochs.len() as u64;
        let mut rng = Rng::new(mix(mix(p.seed, 0xE90C), idx));
        let length = rng.range(p.epoch_len.0, p.epoch_len.1).max(1);
        if idx == 0 {
            let (compact, bd) = roundtrip_difficulty(&p.base_difficulty);
            self.epochs.push(EpochInfo { number: 0, start: 0, length, compact, block_difficulty: bd });
            return;
        }
        let prev = self.epochs.last().unwrap().clone();
        let start = prev.start + prev.length;
        let prev_epoch_diff = &prev.block_difficulty * prev.length;
        let max_bd: Option<U256> = if p.pow == PowKind::Eaglesong { Some(U256::from(96u64)) } else { None };
        // candidate ratios num/den
        let ratio: (u64, u64) = match p.diff_mode {
            DiffMode::Fixed => (1, 1),
            DiffMode::Walk => *rng.pick(&[(1, 2), (2, 3), (3, 4), (1, 1), (1, 1), (4, 3), (3, 2), (2, 1), (7, 8), (9, 8)]),
            DiffMode::Extreme => {
                if rng.chance(1, 2) {
                    (2, 1)
                } else {
                    (1, 2)
                }
            }
            DiffMode::Jump => *rng.pick(&[(3, 1), (5, 1), (8, 1), (1, 3), (1, 5), (1, 8), (1, 1), (3, 2), (2, 3), (2, 1), (1, 2), (4, 3)]),
        };
        let jump = p.diff_mode == DiffMode::Jump && (ratio.0 > 2 * ratio.1 || ratio.1 > 2 * ratio.0);
        let legal = |bd: &U256, len: u64| -> bool {
            if bd.is_zero() {
                return false;
            }
            let d = bd * len;
            // tau = 2, exact integer comparison
            &d * 2u64 >= prev_epoch_diff && d <= &prev_epoch_diff * 2u64
        };
        let mut chosen: Option<(u32, U256, u64)> = None;
        if p.diff_mode != DiffMode::Fixed {
            let target_epoch = &prev_epoch_diff * ratio.0 / ratio.1;
            let mut bd = &target_epoch / length;
            if bd.is_zero() {
                bd = U256::one();
            }
            if let Some(m) = &max_bd {
                if &bd > m {
                    bd = m.clone();
                }
            }
            // try bd, bd-1, bd+1 after compact round trip
            let cands = vec![bd.clone(), if bd > U256::one() { &bd - 1u64 } else { bd.clone() }, &bd + 1u64];
            for c in cands {
                let (compact, actual) = roundtrip_difficulty(&c);
                if (legal(&actual, length) || (jump && !actual.is_zero())) && max_bd.as_ref().map(|m| &actual <= m).unwrap_or(true) {
                    chosen = Some((compact, actual, length));
                    break;
                }
            }
        }
        let (compact, bd, length) = chosen.unwrap_or_else(|| {
            // same block difficulty and same length as the previous epoch is always legal
            (prev.compact, prev.block_difficulty.clone(), if p.diff_mode == DiffMode::Fixed { length } else { prev.length })
        });
        // Fixed mode with a different length changes the epoch difficulty: keep it legal
        let (compact, bd, length) = if legal(&bd, length) || jump { (compact, bd, length) } else { (prev.compact, prev.block_difficulty.clone(), prev.length) };
        self.epochs.push(EpochInfo { number: idx, start, length, compact, block_difficulty: bd });
    }

    fn cell_of(&self, op: &OutPoint) -> Option<LiveCell> {
        let (tx, block, tx_index) = self.txs.get(&op.tx_hash())?;
        let idx: usize = op.index().unpack();
        Some(LiveCell {
            out_point: op.clone(),
            output: tx.outputs().get(idx)?,
            data: tx.outputs_data().get(idx)?.raw_data(),
            block: *block,
            tx_index: *tx_index,
        })
    }

    fn gen_txs(&mut self, n: u64, salt: u64) -> Vec<TransactionView> {
        let p = self.params.clone();
        let mut rng = Rng::new(mix(mix(mix(p.seed, 0x7A5), n), salt));
        let mut counter: u64 = n * 256 + (salt % 7) * 32;
        let mut next_cap = |rng: &mut Rng| -> u64 {
            counter += 1;
            100_0000_0000u64 + counter * 1000 + rng.below(1000)
        };
        let mk_output = |rng: &mut Rng, cap: u64| -> (CellOutput, Bytes) {
            let lock = if p.always_success && p.secp && rng.chance(1, 2) {
                secp_lock(0)
            } else if p.always_success {
                super::props::c18::always_success_cell().2
            } else {
                lock_script(rng.pick_idx(p.n_locks.max(1)))
            };
            let mut b = CellOutputBuilder::default().capacity(Capacity::shannons(cap).pack()).lock(lock);
            if p.n_types > 0 && rng.chance(1, 3) {
                b = b.type_(Some(type_script(rng.pick_idx(p.n_types))).pack());
            }
            let dlen = rng.below(6) as usize;
            let mut data = rng.bytes(dlen);
            if rng.chance(1, 2) {
                data.extend_from_slice(&cap.to_le_bytes()); // unique tag
            }
            (b.build(), Bytes::from(data))
        };
        let mut txs = vec![];
        // cellbase
        {
            let cap = next_cap(&mut rng);
            let nout = if n == 0 { 3 } else { 1 };
            let mut tb = TransactionBuilder::default()
                .input(CellInput::new_cellbase_input(n))
                .witness(Script::default().into_witness());
            for k in 0..nout {
                let (o, d) = mk_output(&mut rng, cap + k);
                tb = tb.output(o).output_data(d.pack());
            }
            if n == 0 && p.always_success {
                let (cell, data, _script) = super::props::c18::always_success_cell();
                tb = tb.output(cell).output_data(data.pack());
                if p.secp {
                    for bin in [&secp_bins().0, &secp_bins().1] {
                        let cell = CellOutput::new_builder().capacity(Capacity::bytes(bin.len() + 200).unwrap().pack()).build();
                        tb = tb.output(cell).output_data(bin.clone().pack());
                    }
                }
            }
            txs.push(tb.build());
        }
        if n > 0 && rng.below(100) < p.tx_density {
            let ntx = rng.range(1, 3);
            for _ in 0..ntx {
                let mut inputs: Vec<OutPoint> = vec![];
                let nin = rng.range(1, 2);
                for _ in 0..nin {
                    // same-block chain: spend an output of a previous tx of this block
                    if txs.len() > 1 && rng.chance(1, 3) {
                        let t: &TransactionView = &txs[rng.range(1, txs.len() as u64 - 1) as usize];
                        let idx = rng.pick_idx(t.outputs().len());
                        let op = OutPoint::new(t.hash(), idx as u32);
                        let already = inputs.contains(&op)
                            || txs.iter().any(|x: &TransactionView| x.input_pts_iter().any(|i| i == op));
                        if !already {
                            inputs.push(op);
                            continue;
                        }
                    }
                    if !self.live.is_empty() {
                        let k = rng.pick_idx(self.live.len());
                        let op = self.live.remove(k);
                        inputs.push(op);
                    }
                }
                if inputs.is_empty() {
                    continue;
                }
                let mut tb = TransactionBuilder::default();
                for op in inputs {
                    tb = tb.input(CellInput::new(op, 0));
                }
                let nout = rng.range(1, 3);
                for _ in 0..nout {
                    let cap = next_cap(&mut rng);
                    let (o, d) = mk_output(&mut rng, cap);
                    tb = tb.output(o).output_data(d.pack());
                }
                tb = tb.witness(Bytes::from(rng.bytes(4)).pack());
                txs.push(tb.build());
            }
        }
        txs
    }

    /// Append one generated block. `salt` distinguishes branches.
    pub fn push_block(&mut self, salt: u64) {
        let n = self.blocks.len() as u64;
        let e = self.epoch_for(n);
        let txs = self.gen_txs(n, salt);
        let mut bb = BlockBuilder::default().transactions(txs);
        let mut hb = HeaderBuilder::default()
            .epoch(EpochNumberWithFraction::new(e.number, n - e.start, e.length).pack())
            .number(n.pack())
            .compact_target(e.compact.pack())
            .timestamp((self.params.base_ts + n * 1000 + (salt % 500)).pack());
        if n > 0 {
            let parent = self.blocks.last().unwrap();
            let committed = EpochNumberWithFraction::new(e.number, n - e.start, e.length) > EpochNumberWithFraction::new(self.mmr_epoch, 0, 1);
            if committed {
                let root = self.root(n - 1);
                let ext: packed::Bytes = root.calc_mmr_hash().as_bytes().pack();
                bb = bb.extension(Some(ext));
            }
            hb = hb.parent_hash(parent.hash());
        }
        let b = mine_block(self.params.pow, bb.header(hb.build()).build(), salt);
        self.append_block(b);
    }

    /// Append an already built block (used for forks and fabricated blocks).
    pub fn append_block(&mut self, b: BlockView) {
        let n = self.blocks.len() as u64;
        assert_eq!(b.number(), n);
        let txv: Vec<TransactionView> = b.transactions();
        let (fd, _missing) = build_filter_data(Prov(&self.txs, &txv), &txv);
        for (i, tx) in txv.iter().enumerate() {
            for op in tx.input_pts_iter() {
                if let Some(p) = self.live.iter().position(|x| x == &op) {
                    self.live.remove(p);
                }
            }
            self.txs.insert(tx.hash(), (tx.clone(), n, i as u32));
        }
        // outputs become spendable (after inserting all txs, minus those spent in-block)
        let spent_in_block: Vec<OutPoint> = txv.iter().flat_map(|t| t.input_pts_iter()).collect();
        for tx in txv.iter() {
            for idx in 0..tx.outputs().len() {
                let op = OutPoint::new(tx.hash(), idx as u32);
                if !spent_in_block.contains(&op) {
                    self.live.push(op);
                }
            }
        }
        let fd: packed::Bytes = fd.pack();
        let parent_fh = self.filter_hashes.last().cloned().unwrap_or_else(Byte32::zero);
        let fh: Byte32 = calc_filter_hash(&parent_fh, &fd).pack();
        let td = if n == 0 { b.difficulty() } else { self.tds.last().unwrap() + b.difficulty() };
        {
            let size = if n == 0 { 0 } else { leaf_index_to_mmr_size(n - 1) };
            let mut mmr = ChainRootMMR::new(size, &self.store);
            mmr.push(b.digest()).unwrap();
            mmr.commit().unwrap();
        }
        self.hash_to_num.insert(b.hash(), n);
        self.blocks.push(b);
        self.tds.push(td);
        self.filters.push(fd);
        self.filter_hashes.push(fh);
    }

    pub fn grow(&mut self, n: u64) {
        let salt = self.branch_salt;
        for _ in 0..n {
            self.push_block(salt);
        }
    }

    /// New chain sharing blocks [0..=at] with `self`, then continuing with a different salt.
    pub fn fork(&self, at: u64, extra: u64, salt: u64) -> Chain {
        let mut c = self.clone();
        c.truncate(at);
        c.branch_salt = salt.max(1).wrapping_add(self.branch_salt.wrapping_mul(31));
        c.grow(extra);
        c
    }

    pub fn truncate(&mut self, at: u64) {
        let keep = at as usize + 1;
        for b in self.blocks[keep..].iter() {
            self.hash_to_num.remove(&b.hash());
            for tx in b.transactions() {
                self.txs.remove(&tx.hash());
            }
        }
        self.blocks.truncate(keep);
        self.tds.truncate(keep);
        self.filters.truncate(keep);
        self.filter_hashes.truncate(keep);
        // recompute spendable outputs
        let mut live: Vec<OutPoint> = vec![];
        for b in self.blocks.iter() {
            for tx in b.transactions() {
                for op in tx.input_pts_iter() {
                    if let Some(p) = live.iter().position(|x| x == &op) {
                        live.remove(p);
                    }
                }
                for idx in 0..tx.outputs().len() {
                    live.push(OutPoint::new(tx.hash(), idx as u32));
                }
            }
        }
        self.live = live;
        // drop epochs that start after the tip (they may be regenerated identically)
        let tip = self.tip();
        while self.epochs.len() > 1 && self.epochs.last().unwrap().start > tip {
            self.epochs.pop();
        }
    }

    /// MMR root over headers [0..=n]
    pub fn root(&self, n: u64) -> packed::HeaderDigest {
        ChainRootMMR::new(leaf_index_to_mmr_size(n), &self.store).get_root().unwrap()
    }

    pub fn vh(&self, n: u64) -> packed::VerifiableHeader {
        let b = &self.blocks[n as usize];
        let root = if n == 0 { Default::default() } else { self.root(n - 1) };
        packed::VerifiableHeader::new_builder()
            .header(b.data().header())
            .uncles_hash(b.calc_uncles_hash())
            .extension(Pack::pack(&b.extension()))
            .parent_chain_root(root)
            .build()
    }

    /// MMR proof for leaves `nums` against root(last-1)
    pub fn proof(&self, last: u64, nums: &[u64]) -> packed::HeaderDigestVec {
        if nums.is_empty() || last == 0 {
            return Default::default();
        }
        ChainRootMMR::new(leaf_index_to_mmr_size(last - 1), &self.store)
            .gen_proof(nums.iter().map(|n| leaf_index_to_pos(*n)).collect())
            .unwrap()
            .proof_items()
            .to_owned()
            .pack()
    }

    pub fn is_ancestor(&self, hash: &Byte32, of: u64) -> bool {
        self.num_of(hash).map(|n| n <= of).unwrap_or(false)
    }

    pub fn live_cell(&self, op: &OutPoint) -> Option<LiveCell> {
        self.cell_of(op)
    }

    /// check point hashes for interval `iv`: filter hash at 0, iv, 2iv ...
    pub fn check_point(&self, idx: u64, iv: u64) -> Option<Byte32> {
        self.filter_hashes.get((idx * iv) as usize).cloned()
    }
}
