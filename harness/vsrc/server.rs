//! Honest server side of RFC 44 / RFC 45 as the client expects it (DESIGN appendix A).

use ckb_network::{bytes::Bytes as P2pBytes, ProtocolId, SupportProtocols};
use ckb_types::{
    core::BlockView,
    packed::{self, Byte32},
    prelude::*,
    utilities::{merkle_root, CBMT},
    U256,
};

use super::chain::Chain;

pub use super::net::P;
pub const LC: P = P::Lc;
pub const FILTER: P = P::Filter;
pub const SYNC: P = P::Sync;

pub fn lc_msg(c: impl Into<packed::LightClientMessageUnion>) -> P2pBytes {
    packed::LightClientMessage::new_builder().set(c).build().as_bytes()
}
pub fn filter_msg(c: impl Into<packed::BlockFilterMessageUnion>) -> P2pBytes {
    packed::BlockFilterMessage::new_builder().set(c).build().as_bytes()
}
pub fn sync_msg(c: impl Into<packed::SyncMessageUnion>) -> P2pBytes {
    packed::SyncMessage::new_builder().set(c).build().as_bytes()
}

/// Wrap raw table bytes as a union item of LightClientMessage with the item id of `like`.
pub fn lc_raw_union(like: packed::LightClientMessageUnion, body: &[u8]) -> P2pBytes {
    let id = like.item_id();
    let mut v = id.to_le_bytes().to_vec();
    v.extend_from_slice(body);
    P2pBytes::from(v)
}

#[derive(Clone, Debug, Default)]
pub struct ProofParts {
    pub last: u64,
    pub reorg: Vec<u64>,
    pub sampled: Vec<u64>,
    pub last_n: Vec<u64>,
    /// boundary block number when sampling took place
    pub boundary: Option<u64>,
}

impl ProofParts {
    pub fn all(&self) -> Vec<u64> {
        let mut v = self.reorg.clone();
        v.extend(self.sampled.iter());
        v.extend(self.last_n.iter());
        v
    }
}

#[derive(Clone, Debug, Default)]
pub struct ServerOpts {
    pub filters_batch: u64,
    pub hashes_batch: u64,
    pub cp_batch: u64,
    pub cp_interval: u64,
    pub v1: bool,
}

impl ServerOpts {
    pub fn new(cp_interval: u64) -> Self {
        ServerOpts { filters_batch: 7, hashes_batch: 10, cp_batch: 5, cp_interval, v1: true }
    }
}

pub fn last_state(chain: &Chain) -> packed::SendLastState {
    packed::SendLastState::new_builder().last_header(chain.vh(chain.tip())).build()
}

/// None = `last_hash` unknown (tip-state reply) or request the honest server would refuse.
pub fn proof_parts(chain: &Chain, req: &packed::GetLastStateProof) -> Option<ProofParts> {
    let last = chain.num_of(&req.last_hash())?;
    let start: u64 = req.start_number().unpack();
    let last_n: u64 = req.last_n_blocks().unpack();
    if start >= last || last_n == 0 {
        return None;
    }
    let boundary: U256 = req.difficulty_boundary().unpack();
    let diffs: Vec<U256> = req.difficulties().into_iter().map(|d| d.unpack()).collect();
    let mut parts = ProofParts { last, ..Default::default() };
    if last - start <= last_n {
        parts.last_n = (start..last).collect();
    } else {
        let mut bnum = (start..last).find(|n| chain.tds[*n as usize] >= boundary).unwrap_or(last);
        if last - bnum < last_n {
            bnum = last - last_n;
        }
        parts.boundary = Some(bnum);
        if bnum > start {
            let limit = chain.tds[(bnum - 1) as usize].clone();
            for d in diffs.iter().take_while(|d| **d <= limit) {
                if let Some(n) = (start..bnum).find(|n| chain.tds[*n as usize] >= *d) {
                    if parts.sampled.last() != Some(&n) {
                        parts.sampled.push(n);
                    }
                }
            }
        }
        parts.last_n = (bnum..last).collect();
    }
    let start_hash = req.start_hash();
    let start_matches = chain.blocks.get(start as usize).map(|b| b.hash() == start_hash).unwrap_or(false);
    if start != 0 && !start_matches {
        let lo = start.saturating_sub(last_n).max(1);
        parts.reorg = (lo..start).collect();
    }
    Some(parts)
}

pub fn encode_proof(chain: &Chain, parts: &ProofParts) -> packed::SendLastStateProof {
    let nums = parts.all();
    let headers: Vec<_> = nums.iter().map(|n| chain.vh(*n)).collect();
    packed::SendLastStateProof::new_builder()
        .last_header(chain.vh(parts.last))
        .proof(chain.proof(parts.last, &nums))
        .headers(headers.pack())
        .build()
}

pub fn tip_state_proof(chain: &Chain) -> packed::SendLastStateProof {
    packed::SendLastStateProof::new_builder().last_header(chain.vh(chain.tip())).build()
}

pub fn last_state_proof(chain: &Chain, req: &packed::GetLastStateProof) -> Option<packed::SendLastStateProof> {
    if chain.num_of(&req.last_hash()).is_none() {
        return Some(tip_state_proof(chain));
    }
    proof_parts(chain, req).map(|p| encode_proof(chain, &p))
}

pub struct BlocksProofParts {
    pub last: Option<u64>,
    pub found: Vec<u64>,
    pub missing: Vec<Byte32>,
}

pub fn blocks_proof_parts(chain: &Chain, req: &packed::GetBlocksProof) -> BlocksProofParts {
    let last = chain.num_of(&req.last_hash());
    let mut found = vec![];
    let mut missing = vec![];
    if let Some(last) = last {
        for h in req.block_hashes().into_iter() {
            match chain.num_of(&h) {
                Some(n) if n < last => found.push(n),
                _ => missing.push(h),
            }
        }
    }
    BlocksProofParts { last, found, missing }
}

pub fn encode_blocks_proof(chain: &Chain, p: &BlocksProofParts, v1: bool) -> P2pBytes {
    let last = match p.last {
        Some(l) => l,
        None => {
            return lc_msg(packed::SendBlocksProof::new_builder().last_header(chain.vh(chain.tip())).build());
        }
    };
    let headers: Vec<packed::Header> = p.found.iter().map(|n| chain.blocks[*n as usize].header().data()).collect();
    if v1 {
        let uncles: Vec<Byte32> = p.found.iter().map(|n| chain.blocks[*n as usize].calc_uncles_hash()).collect();
        let exts: Vec<packed::BytesOpt> =
            p.found.iter().map(|n| Pack::pack(&chain.blocks[*n as usize].extension())).collect();
        let m = packed::SendBlocksProofV1::new_builder()
            .last_header(chain.vh(last))
            .proof(chain.proof(last, &p.found))
            .headers(headers.pack())
            .missing_block_hashes(p.missing.clone().pack())
            .blocks_uncles_hash(uncles.pack())
            .blocks_extension(packed::BytesOptVec::new_builder().set(exts).build())
            .build();
        lc_raw_union(packed::SendBlocksProof::default().into(), m.as_slice())
    } else {
        lc_msg(
            packed::SendBlocksProof::new_builder()
                .last_header(chain.vh(last))
                .proof(chain.proof(last, &p.found))
                .headers(headers.pack())
                .missing_block_hashes(p.missing.clone().pack())
                .build(),
        )
    }
}

pub struct TxsProofParts {
    pub last: Option<u64>,
    /// (block number, tx indices in that block)
    pub found: Vec<(u64, Vec<u32>)>,
    pub missing: Vec<Byte32>,
}

pub fn txs_proof_parts(chain: &Chain, req: &packed::GetTransactionsProof) -> TxsProofParts {
    let last = chain.num_of(&req.last_hash());
    let mut found: Vec<(u64, Vec<u32>)> = vec![];
    let mut missing = vec![];
    if let Some(last) = last {
        for h in req.tx_hashes().into_iter() {
            match chain.txs.get(&h) {
                Some((_, bn, idx)) if *bn < last => {
                    if let Some(e) = found.iter_mut().find(|(b, _)| b == bn) {
                        e.1.push(*idx);
                    } else {
                        found.push((*bn, vec![*idx]));
                    }
                }
                _ => missing.push(h),
            }
        }
    }
    TxsProofParts { last, found, missing }
}

pub fn filtered_block(b: &BlockView, idxs: &[u32]) -> packed::FilteredBlock {
    let tx_hashes: Vec<Byte32> = b.transactions().iter().map(|t| t.hash()).collect();
    let mut idxs = idxs.to_vec();
    idxs.sort();
    let proof = CBMT::build_merkle_proof(&tx_hashes, &idxs).expect("build proof");
    let txs: Vec<packed::Transaction> = idxs.iter().map(|i| b.transactions()[*i as usize].data()).collect();
    packed::FilteredBlock::new_builder()
        .header(b.header().data())
        .witnesses_root(b.calc_witnesses_root())
        .transactions(txs.pack())
        .proof(
            packed::MerkleProof::new_builder()
                .indices(proof.indices().to_owned().pack())
                .lemmas(proof.lemmas().to_owned().pack())
                .build(),
        )
        .build()
}

pub fn encode_txs_proof(chain: &Chain, p: &TxsProofParts, v1: bool) -> P2pBytes {
    let last = match p.last {
        Some(l) => l,
        None => {
            return lc_msg(packed::SendTransactionsProof::new_builder().last_header(chain.vh(chain.tip())).build());
        }
    };
    let fbs: Vec<packed::FilteredBlock> =
        p.found.iter().map(|(bn, idxs)| filtered_block(&chain.blocks[*bn as usize], idxs)).collect();
    let nums: Vec<u64> = p.found.iter().map(|(bn, _)| *bn).collect();
    if v1 {
        let uncles: Vec<Byte32> = nums.iter().map(|n| chain.blocks[*n as usize].calc_uncles_hash()).collect();
        let exts: Vec<packed::BytesOpt> = nums.iter().map(|n| Pack::pack(&chain.blocks[*n as usize].extension())).collect();
        let m = packed::SendTransactionsProofV1::new_builder()
            .last_header(chain.vh(last))
            .proof(chain.proof(last, &nums))
            .filtered_blocks(packed::FilteredBlockVec::new_builder().set(fbs).build())
            .missing_tx_hashes(p.missing.clone().pack())
            .blocks_uncles_hash(uncles.pack())
            .blocks_extension(packed::BytesOptVec::new_builder().set(exts).build())
            .build();
        lc_raw_union(packed::SendTransactionsProof::default().into(), m.as_slice())
    } else {
        lc_msg(
            packed::SendTransactionsProof::new_builder()
                .last_header(chain.vh(last))
                .proof(chain.proof(last, &nums))
                .filtered_blocks(packed::FilteredBlockVec::new_builder().set(fbs).build())
                .missing_tx_hashes(p.missing.clone().pack())
                .build(),
        )
    }
}

pub fn block_filters(chain: &Chain, start: u64, batch: u64) -> Option<packed::BlockFilters> {
    if start > chain.tip() || batch == 0 {
        return None;
    }
    let end = (start + batch - 1).min(chain.tip());
    let hashes: Vec<_> = (start..=end).map(|n| chain.blocks[n as usize].hash()).collect();
    let filters: Vec<_> = (start..=end).map(|n| chain.filters[n as usize].clone()).collect();
    Some(
        packed::BlockFilters::new_builder()
            .start_number(start.pack())
            .block_hashes(hashes.pack())
            .filters(filters.pack())
            .build(),
    )
}

pub fn block_filter_hashes(chain: &Chain, start: u64, batch: u64) -> Option<packed::BlockFilterHashes> {
    if start < 1 || start > chain.tip() || batch == 0 {
        return None;
    }
    let end = (start + batch - 1).min(chain.tip());
    let hashes: Vec<_> = (start..=end).map(|n| chain.filter_hashes[n as usize].clone()).collect();
    Some(
        packed::BlockFilterHashes::new_builder()
            .start_number(start.pack())
            .parent_block_filter_hash(chain.filter_hashes[(start - 1) as usize].clone())
            .block_filter_hashes(hashes.pack())
            .build(),
    )
}

pub fn check_points(chain: &Chain, start: u64, interval: u64, batch: u64) -> Option<packed::BlockFilterCheckPoints> {
    if interval == 0 || start % interval != 0 {
        return None;
    }
    let mut cps = vec![];
    let mut n = start;
    while n <= chain.tip() && (cps.len() as u64) < batch {
        cps.push(chain.filter_hashes[n as usize].clone());
        n += interval;
    }
    if cps.is_empty() {
        return None;
    }
    Some(
        packed::BlockFilterCheckPoints::new_builder()
            .start_number(start.pack())
            .block_filter_hashes(cps.pack())
            .build(),
    )
}

/// The honest peer: answers one client message.
pub fn serve(chain: &Chain, opts: &ServerOpts, proto: ProtocolId, data: &P2pBytes) -> Vec<(P, P2pBytes)> {
    let mut out = vec![];
    if proto == LC.id() {
        let msg = match packed::LightClientMessageReader::from_compatible_slice(data) {
            Ok(m) => m,
            Err(_) => return out,
        };
        match msg.to_enum() {
            packed::LightClientMessageUnionReader::GetLastState(_) => out.push((LC, lc_msg(last_state(chain)))),
            packed::LightClientMessageUnionReader::GetLastStateProof(r) => {
                if let Some(m) = last_state_proof(chain, &r.to_entity()) {
                    out.push((LC, lc_msg(m)));
                }
            }
            packed::LightClientMessageUnionReader::GetBlocksProof(r) => {
                let p = blocks_proof_parts(chain, &r.to_entity());
                out.push((LC, encode_blocks_proof(chain, &p, opts.v1)));
            }
            packed::LightClientMessageUnionReader::GetTransactionsProof(r) => {
                let p = txs_proof_parts(chain, &r.to_entity());
                out.push((LC, encode_txs_proof(chain, &p, opts.v1)));
            }
            _ => {}
        }
    } else if proto == FILTER.id() {
        let msg = match packed::BlockFilterMessageReader::from_slice(data) {
            Ok(m) => m,
            Err(_) => return out,
        };
        match msg.to_enum() {
            packed::BlockFilterMessageUnionReader::GetBlockFilters(r) => {
                if let Some(m) = block_filters(chain, r.start_number().unpack(), opts.filters_batch) {
                    out.push((FILTER, filter_msg(m)));
                }
            }
            packed::BlockFilterMessageUnionReader::GetBlockFilterHashes(r) => {
                if let Some(m) = block_filter_hashes(chain, r.start_number().unpack(), opts.hashes_batch) {
                    out.push((FILTER, filter_msg(m)));
                }
            }
            packed::BlockFilterMessageUnionReader::GetBlockFilterCheckPoints(r) => {
                if let Some(m) = check_points(chain, r.start_number().unpack(), opts.cp_interval, opts.cp_batch) {
                    out.push((FILTER, filter_msg(m)));
                }
            }
            _ => {}
        }
    } else if proto == SYNC.id() {
        if let Ok(msg) = packed::SyncMessageReader::from_compatible_slice(data) {
            if let packed::SyncMessageUnionReader::GetBlocks(r) = msg.to_enum() {
                for h in r.block_hashes().iter() {
                    if let Some(n) = chain.num_of(&h.to_entity()) {
                        let c = packed::SendBlock::new_builder().block(chain.blocks[n as usize].data()).build();
                        out.push((SYNC, sync_msg(c)));
                    }
                }
            }
        }
    }
    out
}

/// tx merkle root helper for adversaries
pub fn tx_root(b: &BlockView) -> Byte32 {
    merkle_root(&[b.calc_raw_transactions_root(), b.calc_witnesses_root()])
}

fn h8(b: &[u8]) -> String {
    b.iter().take(4).map(|x| format!("{:02x}", x)).collect()
}

/// one-line description of a protocol message (kind + key fields) for traces and coverage cells
pub fn describe(proto: P, data: &[u8]) -> String {
    match proto {
        P::Lc => match packed::LightClientMessageReader::from_compatible_slice(data) {
            Err(_) => format!("lc:malformed({}B)", data.len()),
            Ok(m) => match m.to_enum() {
                packed::LightClientMessageUnionReader::GetLastState(_) => "GetLastState".into(),
                packed::LightClientMessageUnionReader::SendLastState(r) => {
                    let h = r.last_header().header().to_entity().into_view();
                    format!("SendLastState(#{} {})", h.number(), h8(h.hash().as_slice()))
                }
                packed::LightClientMessageUnionReader::GetLastStateProof(r) => {
                    let start: u64 = r.start_number().unpack();
                    let n: u64 = r.last_n_blocks().unpack();
                    format!(
                        "GetLastStateProof(last {} start #{} {} n={} diffs={})",
                        h8(r.last_hash().as_slice()),
                        start,
                        h8(r.start_hash().as_slice()),
                        n,
                        r.difficulties().len()
                    )
                }
                packed::LightClientMessageUnionReader::SendLastStateProof(r) => {
                    let h = r.last_header().header().to_entity().into_view();
                    let nums: Vec<u64> = r.headers().iter().map(|v| v.header().raw().number().unpack()).collect();
                    let span = if nums.is_empty() { "[]".to_string() } else { format!("[{}..{}]x{}", nums[0], nums[nums.len() - 1], nums.len()) };
                    format!("SendLastStateProof(last #{} {} headers {} proof {})", h.number(), h8(h.hash().as_slice()), span, r.proof().len())
                }
                packed::LightClientMessageUnionReader::GetBlocksProof(r) => {
                    format!("GetBlocksProof(last {} n={})", h8(r.last_hash().as_slice()), r.block_hashes().len())
                }
                packed::LightClientMessageUnionReader::SendBlocksProof(r) => {
                    format!("SendBlocksProof(headers {} missing {} extra {})", r.headers().len(), r.missing_block_hashes().len(), r.count_extra_fields())
                }
                packed::LightClientMessageUnionReader::GetTransactionsProof(r) => {
                    format!("GetTransactionsProof(last {} n={})", h8(r.last_hash().as_slice()), r.tx_hashes().len())
                }
                packed::LightClientMessageUnionReader::SendTransactionsProof(r) => {
                    format!("SendTransactionsProof(blocks {} missing {} extra {})", r.filtered_blocks().len(), r.missing_tx_hashes().len(), r.count_extra_fields())
                }
            },
        },
        P::Filter => match packed::BlockFilterMessageReader::from_slice(data) {
            Err(_) => format!("filter:malformed({}B)", data.len()),
            Ok(m) => match m.to_enum() {
                packed::BlockFilterMessageUnionReader::GetBlockFilters(r) => {
                    let s: u64 = r.start_number().unpack();
                    format!("GetBlockFilters({})", s)
                }
                packed::BlockFilterMessageUnionReader::BlockFilters(r) => {
                    let s: u64 = r.start_number().unpack();
                    format!("BlockFilters({} x{}/{})", s, r.filters().len(), r.block_hashes().len())
                }
                packed::BlockFilterMessageUnionReader::GetBlockFilterHashes(r) => {
                    let s: u64 = r.start_number().unpack();
                    format!("GetBlockFilterHashes({})", s)
                }
                packed::BlockFilterMessageUnionReader::BlockFilterHashes(r) => {
                    let s: u64 = r.start_number().unpack();
                    format!("BlockFilterHashes({} x{})", s, r.block_filter_hashes().len())
                }
                packed::BlockFilterMessageUnionReader::GetBlockFilterCheckPoints(r) => {
                    let s: u64 = r.start_number().unpack();
                    format!("GetBlockFilterCheckPoints({})", s)
                }
                packed::BlockFilterMessageUnionReader::BlockFilterCheckPoints(r) => {
                    let s: u64 = r.start_number().unpack();
                    format!("BlockFilterCheckPoints({} x{})", s, r.block_filter_hashes().len())
                }
            },
        },
        P::Sync => match packed::SyncMessageReader::from_compatible_slice(data) {
            Err(_) => format!("sync:malformed({}B)", data.len()),
            Ok(m) => match m.to_enum() {
                packed::SyncMessageUnionReader::GetBlocks(r) => format!("GetBlocks(n={})", r.block_hashes().len()),
                packed::SyncMessageUnionReader::SendBlock(r) => {
                    let n: u64 = r.block().header().raw().number().unpack();
                    format!("SendBlock(#{} {})", n, h8(r.block().header().to_entity().calc_header_hash().as_slice()))
                }
                other => format!("sync:{}", other.item_name()),
            },
        },
        P::Relay2 | P::Relay3 => match packed::RelayMessageReader::from_compatible_slice(data) {
            Err(_) => format!("relay:malformed({}B)", data.len()),
            Ok(m) => format!("relay:{}", m.to_enum().item_name()),
        },
    }
}

pub fn kind_of(proto: P, data: &[u8]) -> String {
    let d = describe(proto, data);
    d.split('(').next().unwrap_or("").to_string()
}
