//! Adversary: mutation operators over honest answers. Every operator has a stable name.

use ckb_network::bytes::Bytes as P2pBytes;
use ckb_types::{
    core::{BlockView, HeaderView},
    packed::{self, Byte32},
    prelude::*,
    U256,
};

use super::chain::{unmine, Chain, PowKind};
use super::rng::Rng;
use super::server::{self, ProofParts};

fn remine(chain: &Chain, h: packed::Header) -> packed::Header {
    // under Eaglesong a changed header needs a fresh nonce to pass the PoW gate (so that the mutation
    // reaches the checks behind it); under dummy PoW nothing to do
    if chain.params.pow != PowKind::Eaglesong {
        return h;
    }
    let pow = ckb_pow::Pow::EaglesongBlake2b;
    let eng = pow.engine();
    let mut n: u128 = 7 << 64;
    loop {
        let c = h.clone().as_builder().nonce(n.pack()).build();
        if eng.verify(&c) {
            return c;
        }
        n += 1;
    }
}

/// field-level mutation of one raw header; `mine` = give it a valid nonce again
pub fn mutate_header(rng: &mut Rng, chain: &Chain, h: &packed::Header, mine: bool) -> (packed::Header, String) {
    let raw = h.raw();
    let k = rng.below(9);
    let (raw2, name) = match k {
        0 => {
            let t: u64 = raw.timestamp().unpack();
            (raw.clone().as_builder().timestamp((t ^ 1).pack()).build(), "timestamp")
        }
        1 => {
            let n: u64 = raw.number().unpack();
            let n2 = if rng.chance(1, 2) { n.wrapping_add(1) } else { n.wrapping_sub(1) };
            (raw.clone().as_builder().number(n2.pack()).build(), "number")
        }
        2 => {
            let c: u32 = raw.compact_target().unpack();
            (raw.clone().as_builder().compact_target((c ^ 1).pack()).build(), "compact_target")
        }
        3 => {
            let e: u64 = raw.epoch().unpack();
            (raw.clone().as_builder().epoch((e ^ (1 << rng.below(56))).pack()).build(), "epoch")
        }
        4 => (raw.clone().as_builder().parent_hash(Byte32::new(rand32(rng))).build(), "parent_hash"),
        5 => (raw.clone().as_builder().transactions_root(Byte32::new(rand32(rng))).build(), "transactions_root"),
        6 => (raw.clone().as_builder().extra_hash(Byte32::new(rand32(rng))).build(), "extra_hash"),
        7 => (raw.clone().as_builder().dao(Byte32::new(rand32(rng))).build(), "dao"),
        _ => (raw.clone().as_builder().proposals_hash(Byte32::new(rand32(rng))).build(), "proposals_hash"),
    };
    let h2 = h.clone().as_builder().raw(raw2).build();
    if mine {
        (remine(chain, h2), format!("header.{}+remined", name))
    } else {
        (h2, format!("header.{}", name))
    }
}

pub fn rand32(rng: &mut Rng) -> [u8; 32] {
    let v = rng.bytes(32);
    let mut a = [0u8; 32];
    a.copy_from_slice(&v);
    a
}

fn section_of(parts: &ProofParts, idx: usize) -> &'static str {
    if idx < parts.reorg.len() {
        "reorg"
    } else if idx < parts.reorg.len() + parts.sampled.len() {
        "sampled"
    } else {
        "lastn"
    }
}

/// One mutation of an honest SendLastStateProof. Returns None if the operator does not apply.
pub fn mutate_last_state_proof(
    rng: &mut Rng,
    chain: &Chain,
    other: Option<&Chain>,
    parts: &ProofParts,
    honest: &packed::SendLastStateProof,
) -> Option<(packed::SendLastStateProof, String)> {
    let headers: Vec<packed::VerifiableHeader> = honest.headers().into_iter().collect();
    let proof: Vec<packed::HeaderDigest> = honest.proof().into_iter().collect();
    let n = headers.len();
    let pick_idx = |rng: &mut Rng| -> Option<usize> {
        if n == 0 {
            None
        } else {
            Some(rng.pick_idx(n))
        }
    };
    let rebuild = |hs: Vec<packed::VerifiableHeader>, pf: Vec<packed::HeaderDigest>, last: packed::VerifiableHeader| {
        packed::SendLastStateProof::new_builder()
            .last_header(last)
            .proof(packed::HeaderDigestVec::new_builder().set(pf).build())
            .headers(packed::VerifiableHeaderVec::new_builder().set(hs).build())
            .build()
    };
    let last = honest.last_header();
    let op = rng.below(27);
    let out = match op {
        0 => {
            let i = pick_idx(rng)?;
            let mut hs = headers.clone();
            hs.remove(i);
            (rebuild(hs, proof, last), format!("drop-header|{}", section_of(parts, i)))
        }
        1 => {
            let i = pick_idx(rng)?;
            let mut hs = headers.clone();
            hs.insert(i, headers[i].clone());
            (rebuild(hs, proof, last), format!("dup-header|{}", section_of(parts, i)))
        }
        2 => {
            if n < 2 {
                return None;
            }
            let i = rng.pick_idx(n - 1);
            let mut hs = headers.clone();
            hs.swap(i, i + 1);
            (rebuild(hs, proof, last), format!("swap-headers|{}", section_of(parts, i)))
        }
        3 => {
            // replace by a neighbour block of the same chain (valid header, wrong position)
            let i = pick_idx(rng)?;
            let num: u64 = headers[i].header().raw().number().unpack();
            let cand = if rng.chance(1, 2) { num + 1 } else { num.wrapping_sub(1) };
            if cand > chain.tip() || cand == 0 || parts.all().contains(&cand) {
                return None;
            }
            let mut hs = headers.clone();
            hs[i] = chain.vh(cand);
            (rebuild(hs, proof, last), format!("replace-by-neighbour|{}", section_of(parts, i)))
        }
        4 => {
            // replace by the block of another branch at the same height
            let o = other?;
            let i = pick_idx(rng)?;
            let num: u64 = headers[i].header().raw().number().unpack();
            if num == 0 || num > o.tip() || o.blocks[num as usize].hash() == chain.blocks[num as usize].hash() {
                return None;
            }
            let mut hs = headers.clone();
            hs[i] = o.vh(num);
            (rebuild(hs, proof, last), format!("replace-by-other-branch|{}", section_of(parts, i)))
        }
        5 | 6 => {
            let i = pick_idx(rng)?;
            let mine = op == 6;
            let (h2, name) = mutate_header(rng, chain, &headers[i].header(), mine);
            let mut hs = headers.clone();
            hs[i] = headers[i].clone().as_builder().header(h2).build();
            (rebuild(hs, proof, last), format!("{}|{}", name, section_of(parts, i)))
        }
        7 => {
            // header with a nonce that does not solve PoW (only observable under Eaglesong)
            if chain.params.pow != PowKind::Eaglesong {
                return None;
            }
            let i = pick_idx(rng)?;
            let num: u64 = headers[i].header().raw().number().unpack();
            let b = unmine(&chain.blocks[num as usize])?;
            let mut hs = headers.clone();
            hs[i] = headers[i].clone().as_builder().header(b.header().data()).build();
            (rebuild(hs, proof, last), format!("unsolved-nonce|{}", section_of(parts, i)))
        }
        8 => {
            let i = pick_idx(rng)?;
            let mut hs = headers.clone();
            hs[i] = headers[i].clone().as_builder().uncles_hash(Byte32::new(rand32(rng))).build();
            (rebuild(hs, proof, last), format!("vh.uncles_hash|{}", section_of(parts, i)))
        }
        9 => {
            let i = pick_idx(rng)?;
            let mut hs = headers.clone();
            let elen = 32 + rng.below(8) as usize;
            let ext: Option<packed::Bytes> = if rng.chance(1, 3) { None } else { Some(rng.bytes(elen).pack()) };
            hs[i] = headers[i].clone().as_builder().extension(Pack::pack(&ext)).build();
            (rebuild(hs, proof, last), format!("vh.extension|{}", section_of(parts, i)))
        }
        10 => {
            let i = pick_idx(rng)?;
            let num: u64 = headers[i].header().raw().number().unpack();
            if num == 0 {
                return None; // genesis has no parent chain root: the field carries no information
            }
            let root = headers[i].parent_chain_root();
            let (root2, name) = mutate_digest(rng, &root);
            let mut hs = headers.clone();
            hs[i] = headers[i].clone().as_builder().parent_chain_root(root2).build();
            (rebuild(hs, proof, last), format!("vh.parent_chain_root.{}|{}", name, section_of(parts, i)))
        }
        11 => {
            if proof.is_empty() {
                return None;
            }
            let i = rng.pick_idx(proof.len());
            let mut pf = proof.clone();
            pf.remove(i);
            (rebuild(headers, pf, last), "drop-proof-item".to_string())
        }
        12 => {
            if proof.is_empty() {
                return None;
            }
            let i = rng.pick_idx(proof.len());
            let mut pf = proof.clone();
            pf.insert(i, proof[i].clone());
            (rebuild(headers, pf, last), "dup-proof-item".to_string())
        }
        13 => {
            if proof.is_empty() {
                return None;
            }
            let i = rng.pick_idx(proof.len());
            let (d2, name) = mutate_digest(rng, &proof[i]);
            let mut pf = proof.clone();
            pf[i] = d2;
            (rebuild(headers, pf, last), format!("proof-item.{}", name))
        }
        14 => {
            let mut pf = proof.clone();
            let extra = if !proof.is_empty() && rng.chance(1, 2) { proof[0].clone() } else { chain.blocks[rng.pick_idx(chain.blocks.len())].digest() };
            pf.push(extra);
            (rebuild(headers, pf, last), "append-proof-item".to_string())
        }
        15 => {
            if proof.len() < 2 {
                return None;
            }
            let i = rng.pick_idx(proof.len() - 1);
            let mut pf = proof.clone();
            pf.swap(i, i + 1);
            if pf[i].as_slice() == proof[i].as_slice() {
                return None;
            }
            (rebuild(headers, pf, last), "swap-proof-items".to_string())
        }
        16 => {
            // shift the last-N section: one more block before it (valid header, not requested)
            let first = *parts.last_n.first()?;
            if first == 0 || parts.all().contains(&(first - 1)) || first - 1 == 0 {
                return None;
            }
            let pos = parts.reorg.len() + parts.sampled.len();
            let mut hs = headers.clone();
            hs.insert(pos, chain.vh(first - 1));
            (rebuild(hs, proof, last), "extra-block-before-lastn".to_string())
        }
        17 => {
            // drop the first block of the last-N section (the boundary block)
            if parts.last_n.len() < 2 {
                return None;
            }
            let pos = parts.reorg.len() + parts.sampled.len();
            let mut hs = headers.clone();
            hs.remove(pos);
            (rebuild(hs, proof, last), "drop-first-of-lastn".to_string())
        }
        18 => {
            // answer for a different last header (the previous block): complete, self-consistent proof
            if parts.last < 2 {
                return None;
            }
            let mut p2 = parts.clone();
            p2.last -= 1;
            p2.last_n.retain(|x| *x < p2.last);
            p2.sampled.retain(|x| *x < p2.last);
            (server::encode_proof(chain, &p2), "proof-for-previous-block".to_string())
        }
        19 => {
            // consistent proof over a different leaf set (drop one header and regenerate the proof)
            if n < 2 {
                return None;
            }
            let mut p2 = parts.clone();
            let which = rng.below(3);
            let tag = match which {
                0 if !p2.sampled.is_empty() => {
                    let i = rng.pick_idx(p2.sampled.len());
                    p2.sampled.remove(i);
                    "sampled"
                }
                1 if p2.last_n.len() > 1 => {
                    let i = rng.pick_idx(p2.last_n.len());
                    p2.last_n.remove(i);
                    "lastn"
                }
                2 if !p2.reorg.is_empty() => {
                    let i = rng.pick_idx(p2.reorg.len());
                    p2.reorg.remove(i);
                    "reorg"
                }
                _ => return None,
            };
            (server::encode_proof(chain, &p2), format!("consistent-proof-without-one-header|{}", tag))
        }
        22 | 23 => {
            // a consistent proof whose reorg section has the right count and the right last block but a hole:
            // one header (possibly the second to last) is replaced by the block before the section
            if parts.reorg.len() < 2 || parts.reorg[0] < 2 {
                return None;
            }
            let mut p2 = parts.clone();
            let i = if op == 22 { p2.reorg.len() - 2 } else { rng.pick_idx(p2.reorg.len() - 1) };
            p2.reorg.remove(i);
            p2.reorg.insert(0, parts.reorg[0] - 1);
            (server::encode_proof(chain, &p2), format!("consistent-proof-reorg-hole|{}", if i == parts.reorg.len() - 2 { "before-last" } else { "inner" }))
        }
        24 => {
            // same for the last-N section: a hole, compensated by one more block in front
            if parts.last_n.len() < 3 || parts.last_n[0] < 2 || parts.all().contains(&(parts.last_n[0] - 1)) {
                return None;
            }
            let mut p2 = parts.clone();
            let i = rng.range(1, p2.last_n.len() as u64 - 2) as usize;
            p2.last_n.remove(i);
            p2.last_n.insert(0, parts.last_n[0] - 1);
            (server::encode_proof(chain, &p2), "consistent-proof-lastn-hole".to_string())
        }
        25 | 26 => {
            // a consistent proof (regenerated for the smaller leaf set) that keeps the samples and only the tail of the
            // last-N section: the blocks from the difficulty boundary up to that tail are missing. The tail lengths tried
            // are the configurable last-N values, so the cut lands exactly on the requested count in some of the runs.
            let cands: Vec<usize> = [1usize, 2, 3, 5, 10, 25, 100].iter().cloned().filter(|k| *k < parts.last_n.len()).collect();
            if cands.is_empty() || parts.boundary.is_none() {
                return None;
            }
            let keep = *rng.pick(&cands);
            let mut p2 = parts.clone();
            p2.last_n = parts.last_n[parts.last_n.len() - keep..].to_vec();
            (server::encode_proof(chain, &p2), format!("consistent-proof-boundary-region-cut|{}", if parts.sampled.is_empty() { "no-samples" } else { "with-samples" }))
        }
        20 => {
            // last header altered
            let (root2, name) = mutate_digest(rng, &last.parent_chain_root());
            (rebuild(headers, proof, last.clone().as_builder().parent_chain_root(root2).build()), format!("last_header.parent_chain_root.{}", name))
        }
        _ => {
            // a sampled header replaced by a consistent block that does not cover the requested difficulty
            if parts.sampled.is_empty() {
                return None;
            }
            let i = rng.pick_idx(parts.sampled.len());
            let cur = parts.sampled[i];
            let cand = if rng.chance(1, 2) { cur + 1 } else { cur.wrapping_sub(1) };
            if cand == 0 || cand >= parts.boundary.unwrap_or(0) || parts.all().contains(&cand) {
                return None;
            }
            let mut p2 = parts.clone();
            p2.sampled[i] = cand;
            p2.sampled.sort();
            (server::encode_proof(chain, &p2), "consistent-proof-wrong-sample".to_string())
        }
    };
    if out.0.as_slice() == honest.as_slice() {
        return None;
    }
    Some(out)
}

pub fn mutate_digest(rng: &mut Rng, d: &packed::HeaderDigest) -> (packed::HeaderDigest, &'static str) {
    // never a no-op: e.g. "end_number -> 0" on the digest of the genesis leaf would hand back the honest item under an INVALID label
    let (m, name) = mutate_digest_once(rng, d);
    if m.as_slice() != d.as_slice() {
        return (m, name);
    }
    (d.clone().as_builder().children_hash(Byte32::new(rand32(rng))).build(), "children_hash")
}

fn mutate_digest_once(rng: &mut Rng, d: &packed::HeaderDigest) -> (packed::HeaderDigest, &'static str) {
    match rng.below(6) {
        0 => {
            let td: U256 = d.total_difficulty().unpack();
            let td2 = match rng.below(4) {
                0 => td.checked_add(&U256::one()).unwrap_or_else(U256::zero),
                1 => td.checked_sub(&U256::one()).unwrap_or_else(U256::max_value),
                2 => U256::max_value(),
                _ => U256::zero(),
            };
            (d.clone().as_builder().total_difficulty(td2.pack()).build(), "total_difficulty")
        }
        1 => {
            let n: u64 = d.end_number().unpack();
            let n2 = *rng.pick(&[n.wrapping_add(1), n.wrapping_sub(1), u64::MAX, 0]);
            (d.clone().as_builder().end_number(n2.pack()).build(), "end_number")
        }
        2 => {
            let n: u64 = d.start_number().unpack();
            (d.clone().as_builder().start_number(n.wrapping_add(1).pack()).build(), "start_number")
        }
        3 => (d.clone().as_builder().children_hash(Byte32::new(rand32(rng))).build(), "children_hash"),
        4 => {
            let t: u64 = d.end_timestamp().unpack();
            (d.clone().as_builder().end_timestamp((t ^ 1).pack()).build(), "end_timestamp")
        }
        _ => {
            let c: u32 = d.end_compact_target().unpack();
            (d.clone().as_builder().end_compact_target((c ^ 1).pack()).build(), "end_compact_target")
        }
    }
}

/// flip one byte of an encoded message; kept only if it still parses as a light client message
pub fn flip_byte_lc(rng: &mut Rng, data: &P2pBytes) -> Option<(P2pBytes, String)> {
    if data.len() < 8 {
        return None;
    }
    let mut v = data.to_vec();
    let i = rng.range(4, v.len() as u64 - 1) as usize;
    v[i] ^= 1 << rng.below(8);
    if packed::LightClientMessageReader::from_compatible_slice(&v).is_err() {
        return None;
    }
    // a flip inside the parent chain root of a genesis header changes nothing the protocol defines
    // (genesis has no parent chain): such a message is the honest answer, not an invalid one
    if normalized_lsp(&v).is_some() && normalized_lsp(&v) == normalized_lsp(data) {
        return None;
    }
    Some((P2pBytes::from(v), "flip-bit".into()))
}

/// A self-mined child of `chain`'s tip whose extension commits to a forged parent chain root.
pub fn forged_child(chain: &Chain, forged_td: Option<U256>, forged_end: Option<u64>, salt: u64) -> (BlockView, packed::VerifiableHeader) {
    let mut c = chain.clone();
    c.branch_salt = salt | 1;
    c.push_block(salt | 1);
    let honest_child = c.blocks.last().unwrap().clone();
    let n = honest_child.number();
    let mut root = chain.root(n - 1);
    if let Some(td) = forged_td {
        root = root.as_builder().total_difficulty(td.pack()).build();
    }
    if let Some(e) = forged_end {
        root = root.as_builder().end_number(e.pack()).build();
    }
    let ext: packed::Bytes = root.calc_mmr_hash().as_bytes().pack();
    let b = honest_child.as_advanced_builder().extension(Some(ext)).build();
    let b = super::chain::mine_block(chain.params.pow, b, salt);
    let vh = packed::VerifiableHeader::new_builder()
        .header(b.data().header())
        .uncles_hash(b.calc_uncles_hash())
        .extension(Pack::pack(&b.extension()))
        .parent_chain_root(root)
        .build();
    (b, vh)
}

pub fn header_view(vh: &packed::VerifiableHeader) -> HeaderView {
    vh.header().into_view()
}

/// SendLastStateProof with the (information-free) parent chain roots of genesis headers zeroed
fn normalized_lsp(data: &[u8]) -> Option<Vec<u8>> {
    let m = packed::LightClientMessageReader::from_compatible_slice(data).ok()?;
    if let packed::LightClientMessageUnionReader::SendLastStateProof(r) = m.to_enum() {
        let e = r.to_entity();
        let norm = |h: packed::VerifiableHeader| {
            let n: u64 = h.header().raw().number().unpack();
            if n == 0 {
                h.as_builder().parent_chain_root(packed::HeaderDigest::default()).build()
            } else {
                h
            }
        };
        let headers: Vec<packed::VerifiableHeader> = e.headers().into_iter().map(norm).collect();
        let e2 = e.clone().as_builder().last_header(norm(e.last_header())).headers(packed::VerifiableHeaderVec::new_builder().set(headers).build()).build();
        return Some(e2.as_slice().to_vec());
    }
    None
}
