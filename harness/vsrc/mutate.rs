//! Adversary: mutation operators over honest answers (filled in per property).
