//! Reference indexer: a small UTXO / history model over SimChain that shares no code with storage.rs.
//! Also: walking the public RPCs into comparable plain records.

use std::collections::{BTreeMap, BTreeSet, HashMap};

use ckb_jsonrpc_types::JsonBytes;
use ckb_types::{
    packed::{self, Byte32, OutPoint, Script},
    prelude::*,
};
use serde_json::Value;

use crate::service::{BlockFilterRpc, BlockFilterRpcImpl, Order, ScriptType as RpcScriptType, SearchKey};

use super::chain::Chain;
use super::out::hex;

#[derive(Clone, Copy, Debug, PartialEq, Eq, PartialOrd, Ord, Hash)]
pub enum ST {
    Lock,
    Type,
}

impl ST {
    pub fn rpc(self) -> RpcScriptType {
        match self {
            ST::Lock => RpcScriptType::Lock,
            ST::Type => RpcScriptType::Type,
        }
    }
}

#[derive(Clone, Debug, PartialEq, Eq, PartialOrd, Ord, Hash)]
pub struct CellRec {
    pub tx_hash: String,
    pub index: u32,
    pub block: u64,
    pub tx_index: u32,
    pub capacity: u64,
    pub lock: String,
    pub type_: String,
    pub data: String,
}

#[derive(Clone, Debug, PartialEq, Eq, PartialOrd, Ord, Hash)]
pub struct TxRec {
    pub block: u64,
    pub tx_index: u32,
    pub io_index: u32,
    /// 0 = input, 1 = output
    pub io_type: u8,
    pub tx_hash: String,
}

#[derive(Default, Clone, Debug)]
pub struct RefIndex {
    /// all live cells at the tip keyed by script
    pub live: BTreeMap<(ST, Vec<u8>), BTreeSet<CellRec>>,
    /// full history keyed by script
    pub history: BTreeMap<(ST, Vec<u8>), BTreeSet<TxRec>>,
}

pub fn script_key(s: &Script) -> Vec<u8> {
    s.as_slice().to_vec()
}

fn cell_rec(chain: &Chain, op: &OutPoint) -> Option<(CellRec, packed::CellOutput)> {
    let lc = chain.live_cell(op)?;
    let cap: u64 = lc.output.capacity().unpack();
    Some((
        CellRec {
            tx_hash: hex(op.tx_hash().as_slice()),
            index: op.index().unpack(),
            block: lc.block,
            tx_index: lc.tx_index,
            capacity: cap,
            lock: hex(lc.output.lock().as_slice()),
            type_: lc.output.type_().to_opt().map(|t| hex(t.as_slice())).unwrap_or_default(),
            data: hex(&lc.data),
        },
        lc.output,
    ))
}

/// Index the whole chain up to `tip` for every script occurring in it.
pub fn build(chain: &Chain, tip: u64) -> RefIndex {
    let mut idx = RefIndex::default();
    for n in 0..=tip {
        let b = &chain.blocks[n as usize];
        for (ti, tx) in b.transactions().iter().enumerate() {
            if ti > 0 {
                for (ii, op) in tx.input_pts_iter().enumerate() {
                    if let Some((rec, output)) = cell_rec(chain, &op) {
                        let mut keys = vec![(ST::Lock, script_key(&output.lock()))];
                        if let Some(t) = output.type_().to_opt() {
                            keys.push((ST::Type, script_key(&t)));
                        }
                        for k in keys {
                            if let Some(set) = idx.live.get_mut(&k) {
                                set.remove(&rec);
                            }
                            idx.history.entry(k).or_default().insert(TxRec {
                                block: n,
                                tx_index: ti as u32,
                                io_index: ii as u32,
                                io_type: 0,
                                tx_hash: hex(tx.hash().as_slice()),
                            });
                        }
                    }
                }
            }
            for oi in 0..tx.outputs().len() {
                let op = OutPoint::new(tx.hash(), oi as u32);
                if let Some((rec, output)) = cell_rec(chain, &op) {
                    let mut keys = vec![(ST::Lock, script_key(&output.lock()))];
                    if let Some(t) = output.type_().to_opt() {
                        keys.push((ST::Type, script_key(&t)));
                    }
                    for k in keys {
                        idx.live.entry(k.clone()).or_default().insert(rec.clone());
                        idx.history.entry(k).or_default().insert(TxRec {
                            block: n,
                            tx_index: ti as u32,
                            io_index: oi as u32,
                            io_type: 1,
                            tx_hash: hex(tx.hash().as_slice()),
                        });
                    }
                }
            }
        }
    }
    idx
}

pub fn unhex_json(v: &Value) -> Vec<u8> {
    let s = v.as_str().unwrap_or("0x");
    let s = s.trim_start_matches("0x");
    (0..s.len() / 2).map(|i| u8::from_str_radix(&s[2 * i..2 * i + 2], 16).unwrap_or(0)).collect()
}

pub fn num_json(v: &Value) -> u64 {
    let s = v.as_str().unwrap_or("0x0");
    u64::from_str_radix(s.trim_start_matches("0x"), 16).unwrap_or(0)
}

fn script_from_json(v: &Value) -> Option<Script> {
    if v.is_null() {
        return None;
    }
    let s: ckb_jsonrpc_types::Script = serde_json::from_value(v.clone()).ok()?;
    Some(s.into())
}

pub fn cell_from_json(v: &Value) -> CellRec {
    let out = &v["output"];
    CellRec {
        tx_hash: hex(&unhex_json(&v["out_point"]["tx_hash"])),
        index: num_json(&v["out_point"]["index"]) as u32,
        block: num_json(&v["block_number"]),
        tx_index: num_json(&v["tx_index"]) as u32,
        capacity: num_json(&out["capacity"]),
        lock: script_from_json(&out["lock"]).map(|s| hex(s.as_slice())).unwrap_or_default(),
        type_: script_from_json(&out["type"]).map(|s| hex(s.as_slice())).unwrap_or_default(),
        data: hex(&unhex_json(&v["output_data"])),
    }
}

pub fn tx_from_json(v: &Value) -> TxRec {
    TxRec {
        block: num_json(&v["block_number"]),
        tx_index: num_json(&v["tx_index"]) as u32,
        io_index: num_json(&v["io_index"]) as u32,
        io_type: if v["io_type"].as_str() == Some("input") { 0 } else { 1 },
        tx_hash: hex(&unhex_json(&v["transaction"]["hash"])),
    }
}

pub fn search_key(script: &Script, st: ST) -> SearchKey {
    SearchKey { script: script.clone().into(), script_type: st.rpc(), filter: None, with_data: Some(true), group_by_transaction: None }
}

/// Walk get_cells page by page (ascending) through the public RPC.
pub fn rpc_cells(rpc: &BlockFilterRpcImpl, script: &Script, st: ST, page: u32) -> Vec<CellRec> {
    let mut out = vec![];
    let mut cursor: Option<JsonBytes> = None;
    for _ in 0..100_000 {
        let p = rpc.get_cells(search_key(script, st), Order::Asc, page.into(), cursor.clone()).expect("get_cells");
        if p.objects.is_empty() {
            break;
        }
        for c in p.objects.iter() {
            out.push(cell_from_json(&serde_json::to_value(c).unwrap()));
        }
        cursor = Some(p.last_cursor);
    }
    out
}

pub fn rpc_txs(rpc: &BlockFilterRpcImpl, script: &Script, st: ST, page: u32) -> Vec<TxRec> {
    let mut out = vec![];
    let mut cursor: Option<JsonBytes> = None;
    for _ in 0..100_000 {
        let p = rpc.get_transactions(search_key(script, st), Order::Asc, page.into(), cursor.clone()).expect("get_transactions");
        if p.objects.is_empty() {
            break;
        }
        for c in p.objects.iter() {
            out.push(tx_from_json(&serde_json::to_value(c).unwrap()));
        }
        cursor = Some(p.last_cursor);
    }
    out
}

pub fn rpc_capacity(rpc: &BlockFilterRpcImpl, script: &Script, st: ST) -> (u64, String, u64) {
    let c = rpc.get_cells_capacity(search_key(script, st)).expect("get_cells_capacity");
    let v = serde_json::to_value(&c).unwrap();
    (num_json(&v["capacity"]), hex(&unhex_json(&v["block_hash"])), num_json(&v["block_number"]))
}

/// scripts occurring in the chain, for picking registered scripts
pub fn scripts_in(idx: &RefIndex) -> Vec<(ST, Script)> {
    idx.history.keys().map(|(st, k)| (*st, Script::from_slice(k).unwrap())).collect()
}

pub type Registered = Vec<(Script, ST, u64)>;

#[derive(Default, Debug)]
pub struct Comparison {
    pub phantom_cells: Vec<(String, CellRec)>,
    pub missing_cells: Vec<(String, CellRec)>,
    pub bogus_history: Vec<(String, TxRec)>,
    pub missing_history: Vec<(String, TxRec, bool)>,
    pub capacity_mismatch: Vec<(String, u64, u64)>,
    pub cells_checked: u64,
    pub entries_checked: u64,
}

impl Comparison {
    pub fn ok(&self) -> bool {
        self.phantom_cells.is_empty()
            && self.missing_cells.is_empty()
            && self.bogus_history.is_empty()
            && self.missing_history.is_empty()
            && self.capacity_mismatch.is_empty()
    }
}

/// Compare RPC answers of the client with the reference at `tip` of `chain` (DESIGN C03 oracle).
/// Soundness: every returned cell is live on the chain with exactly the chain's fields; every
/// returned history entry is a real one. Completeness: everything in blocks (start, tip].
pub fn compare(rpc: &BlockFilterRpcImpl, chain: &Chain, tip: u64, registered: &Registered, idx: &RefIndex) -> Comparison {
    let mut cmp = Comparison::default();
    let all_live: BTreeSet<&CellRec> = idx.live.values().flat_map(|s| s.iter()).collect();
    let all_hist: BTreeSet<&TxRec> = idx.history.values().flat_map(|s| s.iter()).collect();
    let _ = chain;
    let _ = tip;
    for (script, st, start) in registered {
        let name = format!("{:?}:{}", st, hex(script.as_slice()));
        let key = (*st, script_key(script));
        let got_cells = rpc_cells(rpc, script, *st, 7);
        let got_set: BTreeSet<&CellRec> = got_cells.iter().collect();
        for c in got_cells.iter() {
            cmp.cells_checked += 1;
            if !all_live.contains(c) {
                cmp.phantom_cells.push((name.clone(), c.clone()));
            }
        }
        if let Some(truth) = idx.live.get(&key) {
            for c in truth.iter().filter(|c| c.block > *start) {
                cmp.cells_checked += 1;
                if !got_set.contains(c) {
                    cmp.missing_cells.push((name.clone(), c.clone()));
                }
            }
        }
        let got_txs = rpc_txs(rpc, script, *st, 5);
        let got_tset: BTreeSet<&TxRec> = got_txs.iter().collect();
        for t in got_txs.iter() {
            cmp.entries_checked += 1;
            if !all_hist.contains(t) {
                cmp.bogus_history.push((name.clone(), t.clone()));
            }
        }
        if let Some(truth) = idx.history.get(&key) {
            for t in truth.iter().filter(|t| t.block > *start) {
                cmp.entries_checked += 1;
                if !got_tset.contains(t) {
                    // is it an input whose previous output was created at or before the start number?
                    let predates = t.io_type == 0 && input_predates(chain, t, *start);
                    cmp.missing_history.push((name.clone(), t.clone(), predates));
                }
            }
        }
        let (cap, _h, _n) = rpc_capacity(rpc, script, *st);
        let sum: u64 = got_cells.iter().map(|c| c.capacity).sum();
        if cap != sum {
            cmp.capacity_mismatch.push((name.clone(), cap, sum));
        }
    }
    cmp
}

fn input_predates(chain: &Chain, t: &TxRec, start: u64) -> bool {
    let b = &chain.blocks[t.block as usize];
    let tx = &b.transactions()[t.tx_index as usize];
    if let Some(op) = tx.input_pts_iter().nth(t.io_index as usize) {
        if let Some((_, bn, _)) = chain.txs.get(&op.tx_hash()) {
            return *bn <= start;
        }
    }
    false
}

pub fn tx_block_map(chain: &Chain) -> HashMap<Byte32, u64> {
    chain.txs.iter().map(|(h, (_, bn, _))| (h.clone(), *bn)).collect()
}
