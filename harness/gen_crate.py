#!/usr/bin/env python3
"""Generate the harness crate (Cargo.toml, Cargo.lock, rust-toolchain, src/main.rs) from /repo.

The harness is *the repository's own module tree*, compiled with cfg(test) and feature `verif`,
plus the monitor modules of /verif/harness/vsrc appended.  Regenerated at every check invocation so
that a change of /repo (module list, dependencies) can never leave the harness stale.
Only rewrites a file when its content changes (keeps cargo's fingerprints stable).
"""
import os
import re
import sys

HERE = os.path.dirname(os.path.abspath(__file__))
REPO = os.environ.get("VERIF_REPO", "/repo")


def write_if_changed(path, content):
    try:
        with open(path) as f:
            if f.read() == content:
                return False
    except FileNotFoundError:
        pass
    os.makedirs(os.path.dirname(path), exist_ok=True)
    with open(path, "w") as f:
        f.write(content)
    return True


def gen_main():
    src = open(os.path.join(REPO, "src/main.rs")).read()
    out = []
    lines = src.split("\n")
    for line in lines:
        m = re.match(r"^(\s*)(pub(\([a-z]+\))?\s+)?mod\s+([a-z_0-9]+);\s*$", line)
        if m:
            indent, vis, _, name = m.group(1), m.group(2) or "", m.group(3), m.group(4)
            p = os.path.join(REPO, "src", name + ".rs")
            if not os.path.exists(p):
                p = os.path.join(REPO, "src", name, "mod.rs")
            out.append('%s#[path = "%s"]' % (indent, p))
            out.append("%s%smod %s;" % (indent, vis, name))
        else:
            out.append(line)
    text = "\n".join(out)
    # the binary's main() is irrelevant for the test harness but must still compile
    text = "#![allow(dead_code, unused_imports, unused_variables, unused_macros)]\n" + text
    text += '\n#[cfg(test)]\n#[path = "%s"]\nmod vh;\n' % os.path.join(HERE, "vsrc", "mod.rs")
    return text


def gen_cargo():
    src = open(os.path.join(REPO, "Cargo.toml")).read()
    src = re.sub(r'(?m)^name\s*=\s*"ckb-light-client"', 'name = "clc-verif"', src, count=1)
    # drop the repo's profiles/badges; we append our own profile
    src = re.sub(r"(?ms)^\[profile\.[^\]]*\].*?(?=^\[|\Z)", "", src)
    src = re.sub(r"(?ms)^\[badges\].*?(?=^\[|\Z)", "", src)
    # feature verif on by default
    if re.search(r"(?m)^default\s*=\s*\[\s*\]", src):
        src = re.sub(r"(?m)^default\s*=\s*\[\s*\]", 'default = ["verif"]', src, count=1)
    if not re.search(r"(?m)^verif\s*=", src):
        # repo without the hook commit: checks that need the hook become inconclusive
        src = re.sub(r"(?m)^\[features\]\s*$", "[features]\nverif = []", src, count=1)
    # extra dev-dependency for the chain generator (real PoW)
    src = re.sub(r"(?m)^\[dev-dependencies\]\s*$", '[dev-dependencies]\nckb-pow = "0.113.0"\nckb-dao-utils = "0.113.0"\nckb-crypto = "0.113.0"', src, count=1)
    src += """
[[bin]]
name = "clc-verif"
path = "src/main.rs"

[profile.test]
opt-level = 1
overflow-checks = true
debug-assertions = false
debug = "line-tables-only"
incremental = false

[profile.test.package."*"]
opt-level = 2
debug = false
"""
    return src


def gen_nightly():
    """second generated crate (harness/nightly/, ignored by git) for the instruments that need the nightly toolchain
    (ThreadSanitizer with -Zbuild-std, Miri): same sources, same lock; differences forced by rustc >= 1.80 only:
    * the repo lists rand 0.8 under [dependencies] and rand 0.6 under [dev-dependencies]; new rustc refuses the two
      `--extern rand` candidates, so the dev-dependency is dropped (src/tests compiles against 0.8 too);
    * ahash 0.7's build script switches on the removed `stdsimd` feature whenever it sees a nightly compiler: a copy of
      the crate with those two println! lines removed is patched in (library code identical);
    * clap 2's crate_authors! macro trips the deny-by-default lint dangerous_implicit_autorefs: allowed for this crate."""
    import glob
    import tarfile
    nd = os.path.join(HERE, "nightly")
    cargo = gen_cargo()
    if re.search(r'(?m)^rand\s*=\s*"0\.8', cargo):
        cargo = re.sub(r'(?m)^rand\s*=\s*"0\.6[^"]*"\s*\n', "", cargo)
    lock = open(os.path.join(HERE, "Cargo.lock")).read() if os.path.exists(os.path.join(HERE, "Cargo.lock")) else open(os.path.join(REPO, "Cargo.lock")).read()
    m = re.search(r'name = "ahash"\nversion = "(0\.7\.[0-9]+)"', lock)
    if m:
        ver = m.group(1)
        dst = os.path.join(nd, "ahash-patched")
        if not os.path.exists(os.path.join(dst, "Cargo.toml")):
            crates = glob.glob(os.path.expanduser("~/.cargo/registry/cache/*/ahash-%s.crate" % ver))
            if crates:
                os.makedirs(nd, exist_ok=True)
                with tarfile.open(crates[0]) as t:
                    t.extractall(nd)
                os.rename(os.path.join(nd, "ahash-%s" % ver), dst)
                b = open(os.path.join(dst, "build.rs")).read()
                b = b.replace('println!("cargo:rustc-cfg=feature=\\"specialize\\"");', "").replace('println!("cargo:rustc-cfg=feature=\\"stdsimd\\"");', "")
                open(os.path.join(dst, "build.rs"), "w").write(b)
        cargo += '\n[patch.crates-io]\nahash = { path = "ahash-patched" }\n'
    cargo += '\n[lints.rust]\ndangerous_implicit_autorefs = "allow"\n'
    write_if_changed(os.path.join(nd, "Cargo.toml"), cargo)
    write_if_changed(os.path.join(nd, "src/main.rs"), gen_main())
    if not os.path.exists(os.path.join(nd, "Cargo.lock")) or open(os.path.join(nd, ".lock_src")).read() != lock:
        open(os.path.join(nd, "Cargo.lock"), "w").write(lock)
        open(os.path.join(nd, ".lock_src"), "w").write(lock)


def main():
    if "--nightly" in sys.argv:
        gen_nightly()
        return
    changed = []
    if write_if_changed(os.path.join(HERE, "src/main.rs"), gen_main()):
        changed.append("src/main.rs")
    if write_if_changed(os.path.join(HERE, "Cargo.toml"), gen_cargo()):
        changed.append("Cargo.toml")
    for name in ("Cargo.lock", "rust-toolchain"):
        content = open(os.path.join(REPO, name)).read()
        if name == "Cargo.lock":
            content = content.replace('name = "ckb-light-client"', 'name = "clc-verif"')
        if name == "Cargo.lock" and os.path.exists(os.path.join(HERE, name)):
            # keep an already resolved lock (it contains ckb-pow); regenerate only if repo lock changed
            stamp = os.path.join(HERE, ".lock_src")
            prev = open(stamp).read() if os.path.exists(stamp) else ""
            if prev == content:
                continue
            open(stamp, "w").write(content)
        elif name == "Cargo.lock":
            open(os.path.join(HERE, ".lock_src"), "w").write(content)
        if write_if_changed(os.path.join(HERE, name), content):
            changed.append(name)
    if changed and "-v" in sys.argv:
        print("regenerated:", ", ".join(changed))


if __name__ == "__main__":
    main()
