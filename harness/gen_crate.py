#!/usr/bin/env python3
"""Generate the harness crate (Cargo.toml, Cargo.lock, rust-toolchain, src/main.rs) from /repo.

The harness is *the repository's own module tree*, compiled with cfg(test) and feature `verif`,
plus the monitor modules of /verif/harness/vsrc appended.  Regenerated at every check invocation so
that a change of /repo (module list, dependencies) can never leave the harness stale.
Only rewrites a file when its content changes (keeps cargo's fingerprints stable).
"""
import os
import re
import sys

HERE = os.path.dirname(os.path.abspath(__file__))
REPO = os.environ.get("VERIF_REPO", "/repo")


def write_if_changed(path, content):
    try:
        with open(path) as f:
            if f.read() == content:
                return False
    except FileNotFoundError:
        pass
    os.makedirs(os.path.dirname(path), exist_ok=True)
    with open(path, "w") as f:
        f.write(content)
    return True


def gen_main():
    src = open(os.path.join(REPO, "src/main.rs")).read()
    out = []
    lines = src.split("\n")
    for line in lines:
        m = re.match(r"^(\s*)(pub(\([a-z]+\))?\s+)?mod\s+([a-z_0-9]+);\s*$", line)
        if m:
            indent, vis, _, name = m.group(1), m.group(2) or "", m.group(3), m.group(4)
            p = os.path.join(REPO, "src", name + ".rs")
            if not os.path.exists(p):
                p = os.path.join(REPO, "src", name, "mod.rs")
            out.append('%s#[path = "%s"]' % (indent, p))
            out.append("%s%smod %s;" % (indent, vis, name))
        else:
            out.append(line)
    text = "\n".join(out)
    # the binary's main() is irrelevant for the test harness but must still compile
    text = "#![allow(dead_code, unused_imports, unused_variables, unused_macros)]\n" + text
    text += '\n#[cfg(test)]\n#[path = "%s"]\nmod vh;\n' % os.path.join(HERE, "vsrc", "mod.rs")
    return text


def gen_cargo():
    src = open(os.path.join(REPO, "Cargo.toml")).read()
    src = re.sub(r'(?m)^name\s*=\s*"ckb-light-client"', 'name = "clc-verif"', src, count=1)
    # drop the repo's profiles/badges; we append our own profile
    src = re.sub(r"(?ms)^\[profile\.[^\]]*\].*?(?=^\[|\Z)", "", src)
    src = re.sub(r"(?ms)^\[badges\].*?(?=^\[|\Z)", "", src)
    # feature verif on by default
    if re.search(r"(?m)^default\s*=\s*\[\s*\]", src):
        src = re.sub(r"(?m)^default\s*=\s*\[\s*\]", 'default = ["verif"]', src, count=1)
    if not re.search(r"(?m)^verif\s*=", src):
        # repo without the hook commit: checks that need the hook become inconclusive
        src = re.sub(r"(?m)^\[features\]\s*$", "[features]\nverif = []", src, count=1)
    # extra dev-dependency for the chain generator (real PoW)
    src = re.sub(r"(?m)^\[dev-dependencies\]\s*$", '[dev-dependencies]\nckb-pow = "0.113.0"\nckb-dao-utils = "0.113.0"', src, count=1)
    src += """
[[bin]]
name = "clc-verif"
path = "src/main.rs"

[profile.test]
opt-level = 1
overflow-checks = true
debug-assertions = false
debug = "line-tables-only"
incremental = false

[profile.test.package."*"]
opt-level = 2
debug = false
"""
    return src


def main():
    changed = []
    if write_if_changed(os.path.join(HERE, "src/main.rs"), gen_main()):
        changed.append("src/main.rs")
    if write_if_changed(os.path.join(HERE, "Cargo.toml"), gen_cargo()):
        changed.append("Cargo.toml")
    for name in ("Cargo.lock", "rust-toolchain"):
        content = open(os.path.join(REPO, name)).read()
        if name == "Cargo.lock":
            content = content.replace('name = "ckb-light-client"', 'name = "clc-verif"')
        if name == "Cargo.lock" and os.path.exists(os.path.join(HERE, name)):
            # keep an already resolved lock (it contains ckb-pow); regenerate only if repo lock changed
            stamp = os.path.join(HERE, ".lock_src")
            prev = open(stamp).read() if os.path.exists(stamp) else ""
            if prev == content:
                continue
            open(stamp, "w").write(content)
        elif name == "Cargo.lock":
            open(os.path.join(HERE, ".lock_src"), "w").write(content)
        if write_if_changed(os.path.join(HERE, name), content):
            changed.append(name)
    if changed and "-v" in sys.argv:
        print("regenerated:", ", ".join(changed))


if __name__ == "__main__":
    main()
