#!/usr/bin/env python3
"""Builds a scratch CARGO_HOME whose registry (index cache + .crate cache) is the union of the two
registry directories of ~/.cargo (cargo 1.72.1 and newer cargos hash the sparse registry URL differently, so each
sees only its own directory). The union lets the nightly toolchain (Miri, -Zsanitizer) resolve the ckb-* crates offline.
usage: merge_cargo_home.py <dest>"""
import os, sys, glob, shutil
dest = sys.argv[1]
R = os.path.expanduser("~/.cargo/registry")
names = sorted(os.listdir(os.path.join(R, "index")))
os.makedirs(dest, exist_ok=True)
if os.path.exists(os.path.expanduser("~/.cargo/config.toml")):
    shutil.copy(os.path.expanduser("~/.cargo/config.toml"), os.path.join(dest, "config.toml"))

def parse(b):
    # version byte, u32 index version, etag \0, then (semver \0 json \0)*
    head = b[:5]
    rest = b[5:]
    i = rest.index(b"\0")
    etag = rest[:i]
    parts = rest[i + 1:].split(b"\0")
    ents = {}
    for k in range(0, len(parts) - 1, 2):
        ents[parts[k]] = parts[k + 1]
    return head, etag, ents

merged = {}
for n in names:
    root = os.path.join(R, "index", n, ".cache")
    for dp, _, fs in os.walk(root):
        for f in fs:
            rel = os.path.relpath(os.path.join(dp, f), root)
            head, etag, ents = parse(open(os.path.join(dp, f), "rb").read())
            if rel in merged:
                merged[rel][2].update(ents)
            else:
                merged[rel] = [head, etag, ents]
for n in names:
    idx = os.path.join(dest, "registry", "index", n)
    os.makedirs(idx, exist_ok=True)
    shutil.copy(os.path.join(R, "index", n, "config.json"), idx)
    for rel, (head, etag, ents) in merged.items():
        p = os.path.join(idx, ".cache", rel)
        os.makedirs(os.path.dirname(p), exist_ok=True)
        with open(p, "wb") as o:
            o.write(head + etag + b"\0")
            for v, j in ents.items():
                o.write(v + b"\0" + j + b"\0")
    c = os.path.join(dest, "registry", "cache", n)
    os.makedirs(c, exist_ok=True)
    for m in names:
        for f in glob.glob(os.path.join(R, "cache", m, "*.crate")):
            t = os.path.join(c, os.path.basename(f))
            if not os.path.lexists(t):
                os.symlink(f, t)
print("merged", len(merged), "index entries into", dest)
