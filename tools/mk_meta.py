#!/usr/bin/env python3
"""usage: mk_meta.py <seeded-name> <property[,property]> <demo test> <breaks> <needs> <caught_by> [base_commit]"""
import json, sys, os, subprocess
name, prop, demo, breaks, needs, caught = sys.argv[1:7]
base = sys.argv[7] if len(sys.argv) > 7 else subprocess.check_output(["git", "-C", "/repo", "log", "--oneline", "-1"]).decode().strip()
d = "/verif/seeded/" + name
conf = [l.strip() for l in open(os.path.join(d, "confirm.txt")) if l.strip()] if os.path.exists(os.path.join(d, "confirm.txt")) else []
chk = [l.rstrip() for l in open(os.path.join(d, "check_quick.txt"))] if os.path.exists(os.path.join(d, "check_quick.txt")) else []
meta = {"property": prop.split(",")[0], "also": prop.split(",")[1:], "breaks": breaks, "needs": needs, "caught_by": caught, "demo_test": demo,
        "author": "independent sub-agent given the property text, a focus sentence naming clauses of the property, and its own scratch worktree; nothing from /verif",
        "confirmed_by_me": {"command": "tools/take_seeded.sh <worktree> <name> <property> <demo filter> (verify_seeded.sh + quick check from a scratch copy of /verif against the patched worktree)", "result": conf},
        "check_output_against_patched_tree": [l for l in chk if not l.startswith("KNOWN")][:8], "base_commit": base + " (repo HEAD when the change was written)"}
json.dump(meta, open(os.path.join(d, "meta.json"), "w"), indent=1)
print("wrote", d + "/meta.json")
