#!/usr/bin/env python3
import json,sys,glob
pat=sys.argv[1] if len(sys.argv)>1 else ''
n=int(sys.argv[2]) if len(sys.argv)>2 else 40
for f in sorted(glob.glob('/verif/replays/*.json')):
    r=json.load(open(f))
    if pat not in r['sig']: continue
    print('=====',f,r['sig'],'seed',r['seed'],'shard',r['shard'],'scenario',r['scenario'])
    d=r['detail']
    for k,v in d.items():
        if k in('trace','bt'): continue
        print('  ',k,':',json.dumps(v)[:700])
    for t in d.get('trace',[])[-n:]: print('    ',t[:220])
    for t in d.get('bt',[])[:14]: print('    bt',t[:220])
