#!/bin/bash
# usage: verify_seeded.sh <worktree> <seeded-dir> <demo test name filter>
# confirms: (1) suite passes with patch (2) demo fails with patch, (3) demo passes without patch
WT=$1; SD=$2; DEMO=$3
cd $WT || exit 1
export CARGO_TARGET_DIR=$WT/target CARGO_NET_OFFLINE=true TMPDIR=$WT/target/tmp
mkdir -p $TMPDIR
git checkout -q -- . ; git clean -fdq -e target -e OUT
git apply $SD/patch.diff || { echo "PATCH DOES NOT APPLY"; exit 1; }
R1=$(cargo test --offline 2>&1 | grep "^test result" | tail -1); find $TMPDIR -mindepth 1 -maxdepth 1 -exec rm -rf {} +
git apply $SD/demo.diff || { echo "DEMO DOES NOT APPLY"; exit 1; }
D1=$(cargo test --offline $EXTRA "$DEMO" 2>&1 | grep "^test result" | tail -1); find $TMPDIR -mindepth 1 -maxdepth 1 -exec rm -rf {} +
git apply -R $SD/patch.diff
D2=$(cargo test --offline $EXTRA "$DEMO" 2>&1 | grep "^test result" | tail -1); find $TMPDIR -mindepth 1 -maxdepth 1 -exec rm -rf {} +
echo "with patch, existing suite: $R1"
echo "with patch, demo only: $D1"
echo "without patch, demo only: $D2"
