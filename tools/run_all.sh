#!/bin/bash
# usage: tools/run_all.sh <tier> [seed]  - runs every claimed check once, sequentially; prints one line per check
TIER=${1:-quick}; SEED=${2:-1}
cd "$(dirname "$0")/.."
mkdir -p .scratch/logs
rc=0
for P in $(python3 -c "import json;print(' '.join(c['property_id'] for c in json.load(open('MANIFEST.json'))['checks']))"); do
  VERIF_SEED=$SEED ./check $P --tier $TIER > .scratch/logs/$TIER-$SEED-$P.log 2>&1; r=$?
  echo "$P exit=$r $(grep -E "^$P (quick|thorough):" .scratch/logs/$TIER-$SEED-$P.log | tail -1)"
  grep -E "^VIOLATION|^INCONCLUSIVE" .scratch/logs/$TIER-$SEED-$P.log | head -3
  [ $r -ne 0 ] && rc=1
done
exit $rc
