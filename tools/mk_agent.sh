#!/bin/bash
# usage: tools/mk_agent.sh <PID> <tag> "<focus>"  -> creates /tmp/wt_<PID>_<tag> (worktree of /repo HEAD + copied target) and prints the prompt
PID=$1; TAG=$2; FOCUS=$3
WT=/tmp/wt_${PID}_${TAG}
if [ ! -d $WT ]; then
  git -C /repo worktree add --detach $WT HEAD >/dev/null 2>&1 || exit 2
  cp -a /repo/target $WT/target
  rm -rf $WT/target/tmp; mkdir -p $WT/OUT
fi
python3 - "$PID" "$WT" "$FOCUS" <<'P'
import json,sys
pid,wt,focus=sys.argv[1:4]
for l in open('/verif/properties.jsonl'):
    p=json.loads(l)
    if p['id']==pid: break
t=open('/verif/tools/agent_prompt.md').read()
anch=p['anchors']
a='files: '+', '.join(anch['files'])+'; mechanisms: '+'; '.join('%s (%s)'%(m['name'],m['where']) for m in anch.get('mechanism',[]))
print(t.replace('{FOCUS}',focus).replace('{PID}',pid).replace('{TITLE}',p['title']).replace('{STATEMENT}',p['statement']).replace('{QUANT}',p['quantifier']['text']).replace('{ANCHORS}',a).replace('{WT}',wt))
P
