#!/usr/bin/env python3
"""usage: tools/run_san.py <asan|tsan|miri> <PROP> [shards] [budget] [time_cap]  - runs only the instrumented shards of a workload (development aid)"""
import importlib.machinery, importlib.util, os, sys, json, shutil
HERE = os.path.dirname(os.path.dirname(os.path.abspath(__file__)))
loader = importlib.machinery.SourceFileLoader("check", os.path.join(HERE, "check"))
spec = importlib.util.spec_from_loader("check", loader)
ck = importlib.util.module_from_spec(spec)
loader.exec_module(ck)
kind, prop = sys.argv[1], sys.argv[2]
shards = int(sys.argv[3]) if len(sys.argv) > 3 else 2
budget = int(sys.argv[4]) if len(sys.argv) > 4 else 10
cap = int(sys.argv[5]) if len(sys.argv) > 5 else 60
import subprocess
subprocess.run([sys.executable, os.path.join(ck.HARNESS, "gen_crate.py")], check=True, env=ck.env_offline())
prefix, benv, cwd, why = ck.build_san(kind)
if not prefix:
    print("unavailable:", why); sys.exit(2)
scratch = os.path.join(HERE, ".scratch", "runsan-%d" % os.getpid())
os.makedirs(scratch)
a = ck.start_san(kind, prefix, benv, cwd, prop, int(os.environ.get("VERIF_SEED", "1")), scratch, shards, budget, cap, {})
res, reports, outs = ck.finish_san(a, cap * 3 + 600)
agg = ck.aggregate(outs)
print(json.dumps(res, indent=1))
print("counters", agg["counters"], "violation signatures", agg["viol_sigs"])
for r in reports[:5]:
    print("REPORT", r["kind"], r["frame"]); print(r["text"][:1500])
if not os.environ.get("VERIF_KEEP"):
    shutil.rmtree(scratch, ignore_errors=True)
