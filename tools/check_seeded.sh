#!/bin/bash
# usage: tools/check_seeded.sh <seeded-name> <PROP>[,<PROP2>] [extra env ...]
# light re-check of a stored seeded change: fresh worktree of /repo HEAD (no copied target: only the harness is built), patch applied,
# quick check(s) run from a scratch copy of /verif; prints the verdict lines; removes worktree and scratch copy afterwards
NAME=$1; PROPS=$2
WT=/tmp/wt_chk_$NAME; VC=/tmp/vc_chk_$NAME
git -C /repo worktree add --detach $WT HEAD >/dev/null 2>&1 || exit 2
(cd $WT && git apply /verif/seeded/$NAME/patch.diff) || { echo "PATCH DOES NOT APPLY"; git -C /repo worktree remove --force $WT; exit 1; }
mkdir -p $VC && rsync -a --exclude target --exclude "target-*" --exclude .scratch --exclude .git --exclude replays --exclude evidence /verif/ $VC/
mkdir -p $VC/evidence; cp -r /verif/target $VC/target
for PROP in ${PROPS//,/ }; do
  (cd $VC && VERIF_NO_SAN=1 VERIF_REPO=$WT ./check $PROP --tier quick 2>&1 | grep -E "signature:|^$PROP quick|^INCONCLUSIVE" | cut -c1-260)
done
git -C /repo worktree remove --force $WT; rm -rf $VC
