#!/usr/bin/env python3
"""Source coverage of the workloads: what code of /repo/src the monitors' executions actually reached.

usage: tools/coverage.py [C01 C02 ...] [--budget-div N] [--shards N]

Builds the nightly twin of the harness (harness/nightly, same sources; DESIGN 10.7) with -Cinstrument-coverage into
/verif/target-cov, runs the quick-tier workload of every property (budget divided by --budget-div, default 2) with
LLVM_PROFILE_FILE set, merges the raw profiles per property and over all properties, and writes

  coverage/summary.json      per property and for the union: per file of /repo/src (tests excluded) lines covered / instrumented,
                             functions reached / instrumented
  coverage/REPORT.md         the same as tables + the list of functions of the property's anchor files that no workload reached
  coverage/uncovered.txt     file:line ranges of /repo/src never executed by any workload (the blind spots of the monitors)

This is an observation instrument (what the oracles saw), not a check: it never produces a verdict.
"""
import importlib.machinery
import importlib.util
import json
import os
import re
import shutil
import subprocess
import sys
import time

HERE = os.path.dirname(os.path.dirname(os.path.abspath(__file__)))
loader = importlib.machinery.SourceFileLoader("check_driver", os.path.join(HERE, "check"))
spec = importlib.util.spec_from_loader("check_driver", loader)
drv = importlib.util.module_from_spec(spec)
loader.exec_module(drv)
sys.path.insert(0, HERE)
from props_cfg import PROPS  # noqa: E402

TOOLS = os.path.expanduser("~/.rustup/toolchains/nightly-x86_64-unknown-linux-gnu/lib/rustlib/x86_64-unknown-linux-gnu/bin")
COVDIR = os.path.join(HERE, "coverage")
TDIR = os.path.join(HERE, "target-cov")
REPO = drv.REPO


def build():
    e = drv.nightly_env()
    e.update({"CARGO_TARGET_DIR": TDIR, "RUSTFLAGS": "-Cinstrument-coverage"})
    cmd = [drv.CARGO_BIN, "+nightly", "test", "--offline", "--no-run", "--message-format=json", "--target-dir", TDIR]
    p = subprocess.run(cmd, cwd=drv.NIGHTLY_DIR, env=e, stdout=subprocess.PIPE, stderr=subprocess.PIPE, text=True)
    exe = drv.find_exe(p.stdout)
    if p.returncode != 0 or not exe:
        sys.exit("coverage build failed:\n" + p.stderr[-3000:])
    return exe


def run_prop(exe, prop, div, shards, scratch):
    cfg = PROPS[prop]["quick"]
    d = os.path.join(scratch, prop)
    os.makedirs(d)
    procs = []
    for i in range(shards):
        e = drv.env_offline()
        e.update({"VERIF_PROP": prop, "VERIF_SEED": os.environ.get("VERIF_SEED", "1"), "VERIF_SHARD": str(i), "VERIF_SHARDS": str(shards), "VERIF_TIER": "quick",
                  "VERIF_BUDGET": str(max(1, cfg["budget"] // div)), "VERIF_TIME_CAP": str(cfg["time_cap"] * 3), "VERIF_OUT": os.path.join(d, "out%d.jsonl" % i),
                  "RUST_LOG": "off", "LLVM_PROFILE_FILE": os.path.join(d, "p-%p-%m.profraw")})
        errf = open(os.path.join(d, "stderr%d" % i), "w")
        procs.append((subprocess.Popen([exe, "--exact", "vh::verif_main", "--nocapture", "--test-threads", "1"], env=e, stdout=errf, stderr=errf, cwd=d), errf))
    for pr, errf in procs:
        try:
            pr.wait(timeout=cfg["time_cap"] * 6 + 300)
        except subprocess.TimeoutExpired:
            pr.kill()
            pr.wait()
        errf.close()
    raws = [os.path.join(r, f) for r, _, fs in os.walk(d) for f in fs if f.endswith(".profraw")]
    evals = 0
    for i in range(shards):
        try:
            for line in open(os.path.join(d, "out%d.jsonl" % i)):
                rec = json.loads(line)
                if rec.get("t") == "summary":
                    evals += rec["counters"].get("evaluations", 0)
        except (OSError, ValueError):
            pass
    prof = os.path.join(scratch, prop + ".profdata")
    subprocess.run([os.path.join(TOOLS, "llvm-profdata"), "merge", "-sparse", "-o", prof] + raws, check=True)
    for r in raws:
        os.remove(r)
    return prof, evals


def export(exe, prof):
    """-> {file: {"lines": {line: count}, "fns": {name: (line, count)}}} for files of /repo/src outside src/tests"""
    p = subprocess.run([os.path.join(TOOLS, "llvm-cov"), "export", "--format=lcov", "--instr-profile=" + prof, exe,
                        "--ignore-filename-regex=(/\\.cargo/|/rustc/|vsrc/|/src/tests/|/tests/)"], stdout=subprocess.PIPE, stderr=subprocess.PIPE, text=True)
    if p.returncode != 0:
        sys.exit("llvm-cov export failed: " + p.stderr[-2000:])
    res = {}
    cur = None
    fnline = {}
    for line in p.stdout.splitlines():
        if line.startswith("SF:"):
            f = line[3:]
            cur = None
            if f.startswith(REPO + "/src/"):
                cur = res.setdefault(f[len(REPO) + 1:], {"lines": {}, "fns": {}})
                fnline = {}
        elif cur is None:
            continue
        elif line.startswith("FN:"):
            ln, name = line[3:].split(",", 1)
            fnline[name] = int(ln.split(",")[0])
        elif line.startswith("FNDA:"):
            cnt, name = line[5:].split(",", 1)
            cur["fns"][name] = (fnline.get(name, 0), max(int(cnt), cur["fns"].get(name, (0, 0))[1]))
        elif line.startswith("DA:"):
            ln, cnt = line[3:].split(",")[:2]
            cur["lines"][int(ln)] = max(int(cnt), cur["lines"].get(int(ln), 0))
    return res


def demangle(names):
    flt = shutil.which("rustfilt")
    if not flt:
        return {n: re.sub(r"^_R.*?(\d+)([a-z_][a-z_0-9]*)$", r"\2", n) for n in names}
    out = subprocess.run([flt], input="\n".join(names), stdout=subprocess.PIPE, text=True).stdout.split("\n")
    return dict(zip(names, out))


def fn_at(path, line):
    """name of the function enclosing `line` by scanning the source upwards (robust against mangling schemes)"""
    try:
        src = open(os.path.join(REPO, path)).read().split("\n")
    except OSError:
        return "?"
    for i in range(min(line, len(src)) - 1, -1, -1):
        m = re.match(r"\s*(?:pub(?:\([a-z]+\))?\s+)?(?:async\s+)?(?:const\s+)?fn\s+([a-zA-Z_0-9]+)", src[i])
        if m:
            return m.group(1)
    return "?"


def summarize(cov):
    files = {}
    for f, d in sorted(cov.items()):
        ls = d["lines"]
        # one entry per source-level function (generic instantiations / closures merged by enclosing fn name)
        fns = {}
        for name, (ln, cnt) in d["fns"].items():
            key = fn_at(f, ln) if ln else name
            fns[key] = max(cnt, fns.get(key, 0))
        files[f] = {"lines_instrumented": len(ls), "lines_covered": sum(1 for c in ls.values() if c > 0),
                    "functions_instrumented": len(fns), "functions_reached": sum(1 for c in fns.values() if c > 0),
                    "functions_not_reached": sorted(k for k, c in fns.items() if c == 0)}
    tot = {k: sum(v[k] for v in files.values()) for k in ("lines_instrumented", "lines_covered", "functions_instrumented", "functions_reached")}
    return {"total": tot, "files": files}


def ranges(nums):
    out = []
    for n in sorted(nums):
        if out and n == out[-1][1] + 1:
            out[-1][1] = n
        else:
            out.append([n, n])
    return out


def main():
    args = [a for a in sys.argv[1:] if not a.startswith("--")]
    div = 2
    shards = 8
    for i, a in enumerate(sys.argv):
        if a == "--budget-div":
            div = int(sys.argv[i + 1])
            args = [x for x in args if x != sys.argv[i + 1]]
        if a == "--shards":
            shards = int(sys.argv[i + 1])
            args = [x for x in args if x != sys.argv[i + 1]]
    props = args or sorted(PROPS)
    t0 = time.time()
    exe = build()
    print("coverage build ok (%.0fs): %s" % (time.time() - t0, exe))
    scratch = os.path.join(HERE, ".scratch", "cov-%d" % os.getpid())
    shutil.rmtree(scratch, ignore_errors=True)
    os.makedirs(scratch)
    os.makedirs(COVDIR, exist_ok=True)
    anchors = {}
    for l in open(os.path.join(HERE, "properties.jsonl")):
        p = json.loads(l)
        anchors[p["id"]] = p["anchors"]["files"]
    summary = {"repo_head": subprocess.check_output(["git", "-C", REPO, "log", "--oneline", "-1"], text=True).strip(),
               "budget": "quick-tier budget / %d, %d shards, VERIF_SEED=%s" % (div, shards, os.environ.get("VERIF_SEED", "1")), "properties": {}}
    profs = []
    for prop in props:
        t1 = time.time()
        prof, evals = run_prop(exe, prop, div, shards, scratch)
        profs.append(prof)
        s = summarize(export(exe, prof))
        s["evaluations"] = evals
        s["wall_s"] = round(time.time() - t1, 1)
        summary["properties"][prop] = s
        print("%s: evaluations=%d lines %d/%d functions %d/%d (%.0fs)" % (prop, evals, s["total"]["lines_covered"], s["total"]["lines_instrumented"],
                                                                          s["total"]["functions_reached"], s["total"]["functions_instrumented"], time.time() - t1))
    allprof = os.path.join(scratch, "ALL.profdata")
    subprocess.run([os.path.join(TOOLS, "llvm-profdata"), "merge", "-sparse", "-o", allprof] + profs, check=True)
    allcov = export(exe, allprof)
    summary["union"] = summarize(allcov)
    json.dump(summary, open(os.path.join(COVDIR, "summary.json"), "w"), indent=1)
    with open(os.path.join(COVDIR, "uncovered.txt"), "w") as f:
        f.write("# lines of /repo/src (tests excluded) that carry a coverage counter and were executed by NO workload (%s; %s)\n" % (summary["repo_head"], summary["budget"]))
        for path, d in sorted(allcov.items()):
            unc = [ln for ln, c in d["lines"].items() if c == 0]
            if not unc:
                continue
            f.write("%s: %s\n" % (path, " ".join("%d" % a if a == b else "%d-%d" % (a, b) for a, b in ranges(unc))))
    with open(os.path.join(COVDIR, "REPORT.md"), "w") as f:
        f.write("# Source coverage of the workloads (observation, not a verdict)\n\n")
        f.write("Repository: `%s`. Build: nightly twin of the harness with `-Cinstrument-coverage`; workload: %s.\n" % (summary["repo_head"], summary["budget"]))
        f.write("Files under `src/tests` and the harness itself are excluded. `main.rs`, `subcmds.rs`, `config.rs`, `error.rs` (process start-up, CLI, RPC server start) are outside what the harness drives.\n\n")
        u = summary["union"]
        f.write("## Union over all workloads: %d / %d lines (%.1f%%), %d / %d functions\n\n" % (
            u["total"]["lines_covered"], u["total"]["lines_instrumented"], 100.0 * u["total"]["lines_covered"] / max(1, u["total"]["lines_instrumented"]),
            u["total"]["functions_reached"], u["total"]["functions_instrumented"]))
        f.write("| file | lines covered | functions reached | functions never reached |\n|---|---|---|---|\n")
        for path, s in u["files"].items():
            f.write("| %s | %d / %d | %d / %d | %s |\n" % (path, s["lines_covered"], s["lines_instrumented"], s["functions_reached"], s["functions_instrumented"],
                                                          ", ".join(s["functions_not_reached"][:25])))
        f.write("\n## Per property: coverage of the files the property is anchored in\n\n| property | evaluations | anchor file | lines covered | functions never reached by this workload |\n|---|---|---|---|---|\n")
        for prop in props:
            s = summary["properties"][prop]
            for a in anchors.get(prop, []):
                fs = s["files"].get(a)
                if not fs:
                    f.write("| %s | %d | %s | (no counter reached / file not instrumented) | |\n" % (prop, s["evaluations"], a))
                    continue
                f.write("| %s | %d | %s | %d / %d | %s |\n" % (prop, s["evaluations"], a, fs["lines_covered"], fs["lines_instrumented"], ", ".join(fs["functions_not_reached"][:20])))
    shutil.rmtree(scratch, ignore_errors=True)
    print("wrote coverage/summary.json, coverage/REPORT.md, coverage/uncovered.txt (%.0fs)" % (time.time() - t0))


if __name__ == "__main__":
    main()
