#!/bin/bash
# usage: tools/take_seeded.sh <worktree> <seeded-name> <PROP>[,<PROP2>] <demo filter>
# copies the agent's OUT/ into seeded/<name>/, confirms suite/demo behaviour, then runs the quick check(s) from a
# scratch copy of /verif (own generated crate and target dir, so it cannot disturb checks running in /verif) against the patched worktree
WT=$1; NAME=$2; PROPS=$3; DEMO=$4
SD=/verif/seeded/$NAME
VC=/tmp/verif_seedcheck_$NAME
mkdir -p $SD && cp $WT/OUT/patch.diff $WT/OUT/demo.diff $WT/OUT/notes.md $SD/ 2>/dev/null
[ -n "$SKIP_VERIFY" ] || /verif/tools/verify_seeded.sh $WT $SD "$DEMO" 2>&1 | tee $SD/confirm.txt
cd $WT && git checkout -q -- . && git clean -fdq -e target -e OUT && git apply $SD/patch.diff || exit 1
mkdir -p $VC && rsync -a --delete --exclude target --exclude target-asan --exclude target-tsan --exclude target-cov --exclude target-miri --exclude .scratch --exclude .git --exclude replays --exclude evidence /verif/ $VC/
mkdir -p $VC/evidence
[ -d $VC/target ] || cp -r /verif/target $VC/target
: > $SD/check_quick.txt
for PROP in ${PROPS//,/ }; do
  (cd $VC && VERIF_NO_ASAN=1 VERIF_REPO=$WT ./check $PROP --tier quick 2>&1 | grep -E "signature:|^$PROP quick|^VIOLATION|^INCONCLUSIVE|^KNOWN" | cut -c1-260 | tee -a $SD/check_quick.txt)
done
cd $WT && git checkout -q -- .
rm -rf $VC
