#!/bin/bash
# Re-test every seeded change under seeded/ against the current /repo HEAD with the current checks.
# Works on scratch copies only: a git worktree of /repo and a copy of /verif (own target dir), both under /tmp,
# removed at the end. /repo's and /verif's working trees are not touched.
set -u
WT=/tmp/wt_retest_$$; VC=/tmp/verif_retest_$$
HEAD=$(git -C /repo rev-parse --short HEAD)
git -C /repo worktree add --detach $WT $HEAD >/dev/null 2>&1 || exit 2
mkdir -p $VC && rsync -a --exclude target --exclude "target-*" --exclude .scratch --exclude .git --exclude replays /verif/ $VC/
[ -d /verif/target ] && cp -r /verif/target $VC/target
for d in /verif/seeded/*/; do
  id=$(basename $d)
  [ -f $d/meta.json ] || continue
  prop=$(python3 -c "import json;print(json.load(open('$d/meta.json'))['property'])")
  patch=$d/patch.diff
  for r in $d/patch_rebased_on_*.diff; do [ -f "$r" ] && patch=$r; done
  git -C $WT checkout -q -- . && git -C $WT clean -fdq
  if ! git -C $WT apply $patch 2>/dev/null; then echo "$id $prop PATCH-DOES-NOT-APPLY-TO-$HEAD"; continue; fi
  out=$(cd $VC && VERIF_REPO=$WT ./check $prop 2>&1)
  n=$(echo "$out" | grep -E "^$prop quick:" | sed -E 's/.*violations\(unlisted\)=([0-9]+).*/\1/')
  sig=$(echo "$out" | grep "signature:" | head -1 | sed 's/^ *signature: //' | cut -c1-140)
  echo "$id $prop unlisted_violations=${n:-?} first_signature=$sig"
done
git -C /repo worktree remove --force $WT
rm -rf $VC
