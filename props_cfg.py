"""Per-property workload sizes, evidence floors and evidence texts (read by ./check)."""

def tiers(q_shards, q_budget, q_cap, t_shards, t_budget, t_cap, min_evals=50, min_cells=4):
    return {
        "quick": {"shards": q_shards, "budget": q_budget, "time_cap": q_cap, "min_evals": min_evals, "min_cells": min_cells},
        "thorough": {"shards": t_shards, "budget": t_budget, "time_cap": t_cap, "min_evals": min_evals * 5, "min_cells": min_cells},
    }

COMMON_ASSUMPTIONS = [
    "ckb-types / molecule / ckb-merkle-mountain-range / golomb-coded-set / ckb-script are used by both the simulated server and the client (shared trusted base)",
    "the honest server simulator follows RFC 44/45 as transcribed in DESIGN appendix A",
    "the client's own thread_rng draws are not seeded: a seed fixes the scenario, not the client's samples",
]

PROPS = {
    "C05": dict(
        level="exploration",
        rule="one evaluation = one judged event (delivered honest message: no ban/disconnect/panic) or one convergence judgement per phase; "
             "a cell = (chain length class, last-N, peers, disturbance kind, PoW flavour, difficulty mode)",
        assumptions=COMMON_ASSUMPTIONS,
        **tiers(16, 40, 60, 16, 1500, 600, min_evals=2000, min_cells=20),
    ),
}


MANIFEST_TEXT = {
    "C05": dict(
        technique="runtime monitoring: RecNet ban/disconnect monitor + bounded-progress convergence oracle over generated honest sync histories",
        level_text="Held on N generated honest histories (variable-difficulty chains with real Eaglesong PoW or dummy PoW at 2^100..2^190 difficulty, 1-4 peers incl. lagging views, growth, restarts, shallow reorgs, joins/leaves) in which the client's own random FlyClient requests are answered by an RFC-conformant server: no ban, no unexplained disconnect, no panic, tip = heaviest announced tip within 60 scheduler rounds. Exploration, not proof: reach is the generated scenario space.",
        level_note="honest server simulator and chain generator are part of the trusted base; check point interval > last-N as in production; liveness restated as bounded progress (R=60 rounds, measured max 8)",
    ),
}
