"""Per-property workload sizes, evidence floors and manifest texts (read by ./check and tools/gen_manifest.py)."""

PROPS = {}
MANIFEST_TEXT = {}

COMMON_ASSUMPTIONS = [
    "ckb-types / molecule / ckb-merkle-mountain-range / golomb-coded-set / ckb-script are used by both the simulated server and the client (shared trusted base)",
    "the honest server simulator follows RFC 44/45 as transcribed in DESIGN appendix A",
    "the client's own thread_rng draws are not seeded: a seed fixes the scenario, not the client's samples",
]


def tiers(q_shards, q_budget, q_cap, t_shards, t_budget, t_cap, min_evals=50, min_cells=4):
    return {
        "quick": {"shards": q_shards, "budget": q_budget, "time_cap": q_cap, "min_evals": min_evals, "min_cells": min_cells},
        "thorough": {"shards": t_shards, "budget": t_budget, "time_cap": t_cap, "min_evals": min_evals * 5, "min_cells": min_cells},
    }


def prop(pid, level, rule, sizes, technique, level_text, level_note, assumptions=None, **extra):
    d = dict(level=level, rule=rule, assumptions=assumptions if assumptions is not None else COMMON_ASSUMPTIONS)
    d.update(sizes)
    d.update(extra)
    # supplementary sanitizer shards (DESIGN 10.7). AddressSanitizer: thorough tier of every property, quick tier where `asan_quick` is set.
    # ThreadSanitizer: the properties with real threads (`tsan=` shards). Miri: the properties whose workload is pure Rust (`miri=` shards).
    q = d["quick"]
    d.setdefault("asan", {})
    d["asan"].setdefault("thorough", {"shards": 4, "budget": max(1, q["budget"])})
    if d.get("asan_quick"):
        d["asan"].setdefault("quick", {"shards": d["asan_quick"], "budget": max(1, q["budget"] // 4)})
    if isinstance(d.get("tsan"), int):
        n = d["tsan"]
        d["tsan"] = {"quick": {"shards": n, "budget": max(1, q["budget"] // 2)}, "thorough": {"shards": 2 * n, "budget": q["budget"]}}
    if isinstance(d.get("miri"), int):
        n = d["miri"]
        d["miri"] = {"thorough": {"shards": n, "budget": d.get("miri_budget", max(1, q["budget"] // 100)), "time_cap": 240}}
    PROPS[pid] = d
    MANIFEST_TEXT[pid] = dict(technique=technique, level_text=level_text, level_note=level_note)


prop(
    "C05", "exploration",
    rule="one evaluation = one judged event (delivered honest message: no ban/disconnect/panic) or one convergence judgement per phase; "
         "a cell = (chain length class, last-N, peers, disturbance kind, PoW flavour, difficulty mode)",
    sizes=tiers(16, 240, 60, 16, 1500, 600, min_evals=2000, min_cells=20),
    technique="runtime monitoring: RecNet ban/disconnect monitor + bounded-progress convergence oracle over generated honest sync histories",
    level_text="Held on N generated honest histories (variable-difficulty chains with real Eaglesong PoW or dummy PoW at 2^100..2^190 difficulty, 1-4 peers incl. lagging views, growth, restarts, shallow reorgs whose fork point is one of the remembered headers or any depth below last-N, joins/leaves) in which the client's own random FlyClient requests are answered by an RFC-conformant server: no ban, no unexplained disconnect, no panic, tip = heaviest announced tip within 60 scheduler rounds. Exploration, not proof: reach is the generated scenario space.",
    level_note="honest server simulator and chain generator are part of the trusted base; check point interval > last-N as in production; liveness restated as bounded progress (R=60 rounds, measured max 8)",
)

prop(
    "C14", "exploration",
    miri=8,
    rule="one evaluation = one call of verify_tau / verify_total_difficulty judged against the constructed history (completeness), a must-reject class, "
         "the interval/shift metamorphic relations, or no-abort; a cell = (oracle part, trend class, epoch-switch class)",
    sizes=tiers(16, 300, 60, 16, 20000, 900, min_evals=20000, min_cells=20),
    technique="runtime monitoring of direct calls: constructed-legal-history completeness oracle, must-reject classes, metamorphic interval/shift relations, panic capture with overflow checks on",
    level_text="verify_tau / verify_total_difficulty called on every legal epoch history of a small grid (complete enumeration up to 4/5 switches) and on random legal walks up to 3000 epochs and 2^230 difficulties: every legal end-point pair accepted; decreasing totals, same-epoch / one-switch mismatches, faster-than-tau end difficulties and totals outside the unconditional tau envelope rejected; accepted totals form an interval and are shift invariant; arbitrary numbers (malformed epochs, extreme compact targets, 0 / 2^256-1 totals) must not panic.",
    level_note="the slack between the exact end-point-conditioned envelope and the unconditional envelope is deliberately not judged; numext U256 and ckb compact conversion are trusted",
    assumptions=["legal history = epoch difficulties (block difficulty x epoch length) with tau*D' >= D and D' <= tau*D in exact integers; compact targets canonical (round-trip stable)",
                 "must-reject side judged only outside the unconditional tau envelope with flooring margin 2n(n+1) (DESIGN C14 / appendix C)"],
    exhaustive_note="the small grid (epoch lengths {1,2,3,7} x block difficulties {1..200}, every legal sequence up to 4 (quick) / 5 (thorough) switches, all start/end indices of short epochs) is enumerated completely unless the evidence notes say TRUNCATED",
)

prop(
    "C15", "exploration",
    miri=8, miri_budget=400,
    rule="one evaluation = one request built by the real builders (build_prove_request_content / _from_genesis / sample_blocks) or emitted by the client in a world scenario, judged clause by clause against ground truth; "
         "a cell = (builder branch, gap class relative to last-N, last-N, difficulty magnitude class, direction)",
    sizes=tiers(16, 24000, 60, 16, 400000, 900, min_evals=20000, min_cells=30),
    technique="runtime monitoring: ground-truth oracle over generated requests and an always-on monitor over the client's outbound GetLastStateProof messages; independent evaluation of the FlyClient sample bound",
    level_text="Every request built for generated start/last numbers (1-block gaps, gaps of last-N and last-N+1, 2^32/2^63/2^64-scale numbers), total difficulties up to 2^256-1, all last-N values, with and without a previous proof and stored last-N headers, and every request the client emits during generated sync histories: start < last, td(start) <= td(last), boundary inside [td(start), td(last)], difficulties strictly increasing inside (start, boundary), samples iff more than last-N blocks are missing, count >= the independently computed FlyClient bound (strict where the range is >= 2^64). World scenarios include chains with illegal difficulty jumps, so the second request of a tau re-check is judged too.",
    level_note="the count clause is strict only where identical draws are practically impossible; distribution quality is not judged; f64 evaluation of the bound is allowed an off-by-one",
)

prop(
    "C13", "exploration",
    memcheck=3, asan_quick=2,
    rule="one evaluation = one complete paged query (all pages followed through last_cursor) compared with the list computed from an independent decoding of the raw key-value dump; "
         "a cell = (query kind, order/grouping, filter kinds, paging class, search kind exact/prefix/longer/wrong-type)",
    sizes=tiers(16, 12000, 60, 16, 200000, 900, min_evals=10000, min_cells=40),
    technique="runtime monitoring: RPC answers vs. an independent decoder of the RocksDB dump, plus metamorphic relations (desc = reverse(asc), grouped = group(ungrouped), capacity = sum(cells))",
    level_text="On stores filled by the real filter_block from generated chains (prefix-sharing scripts incl. empty args, same code hash with different hash types, typed/untyped cells, many cells per block) every generated query (exact / prefix / longer-args / wrong-type search keys, both orders, limits 1..100000, with_data true / absent / false, all filter kinds incl. empty, inverted and touching ranges) returns exactly the matching entries once in key order; desc is the reverse of asc; grouped equals the ungrouped list grouped by consecutive transaction for every page size; get_cells_capacity equals the sum over get_cells and reports the stored tip. Degenerate requests (limit 0, search args above 65535 bytes, cell-only filters on get_transactions) are refused with an error.",
    level_note="script_len_range is taken as inclusive on both ends and the transaction script filter as exact (as ckb-indexer implements them); the dump decoder is part of the trusted base",
    assumptions=["ground truth is the store content (the property is about views of the index), decoded independently of service.rs"],
)

prop(
    "C01", "exploration",
    rule="one evaluation = one delivered message; judged are the messages labelled INVALID by construction (one mutation operator applied to the honest answer to the client's own outstanding request, "
         "stale / cross-peer / replayed answers): trusted state (prove states, LAST_STATE, LAST_N_HEADERS, stored headers) must be byte-identical before and after; "
         "a cell = (operator, section hit, peer state at delivery, outcome)",
    sizes=tiers(16, 240, 70, 16, 4000, 900, min_evals=5000, min_cells=60),
    technique="runtime monitoring: before/after digest of trusted state around every adversarial message; adversary = structural, field-level, byte-level and self-consistent single-flaw mutations of honest answers to the client's live random requests",
    level_text="In generated sync histories (real Eaglesong PoW so that nonce rejection is observable, or dummy PoW; last-N 1..100; fresh, restarted and re-proving clients; shallow reorgs) every SendLastStateProof that differs from the honest answer to the outstanding request - header / proof item / chain root / uncles hash / extension altered, dropped, duplicated, swapped, replaced by a neighbour or by another branch, section boundaries shifted, re-generated consistent proofs with one header missing or a wrong sample, answers to earlier or other peers' requests, replays - left the trusted state byte-for-byte unchanged. Chains with an illegal difficulty history (epoch difficulty jumping by more than tau) make the client run its tau re-check round trip (second request with the trend check off): mutated answers delivered in that state are judged as well. Ground truths independent of labels: every header in trusted state carries valid proof of work (R4), and a proven header moved by a proof with samples passes the total-difficulty range check (R5).",
    level_note="labels come from construction, not from re-implementing the verifier; FlyClient's probabilistic guarantee (a flaw outside the sampled set) is out of reach of a per-run oracle",
)

prop(
    "C12", "exploration",
    rule="one evaluation = one observed change of the stored (total difficulty, tip) pair, one restart comparison or one bounded-progress judgement after an adversarial announcement; "
         "a cell = (cause of the move, last adversarial operator) / injected operator / recovery outcome",
    sizes=tiers(16, 360, 60, 16, 3000, 900, min_evals=1500, min_cells=12),
    technique="runtime monitoring: online invariant check at every change of LAST_STATE against ground-truth cumulative difficulty, reopen comparison, bounded-progress oracle with one deviating peer among honest ones",
    level_text="At every change of the stored tip in generated histories with honest peers plus one deviating peer (forged child announcements whose extension commits to a parent chain root with inflated / deflated / zero / 2^250 total difficulty or a wrong end number, equal-difficulty competitors, truthful self-mined children, stale announcements, restarts): the new tip is proven by some peer, strictly heavier, its stored total difficulty equals the real cumulative difficulty (for a fabricated child: proven parent's total + its own difficulty), the remembered last-N headers are its ancestors, a reopen reproduces the triple, and honest growth is followed within 60 rounds. A third of the scenarios put honest peers on two competing branches (fork point above / at / below last-N): connected and proven in random order, branches growing by children and by 2..last-N+2 blocks, peers switching branches, restarts; the RPC get_tip_header is compared with the stored tip at every step.",
    level_note="ground truth comes from the chain generator; unbounded 'cannot freeze' is restated as bounded progress",
)

prop(
    "C10", "exploration",
    memcheck=40, asan_quick=2,
    rule="one evaluation = one handler invocation (message or timer) wrapped in catch_unwind with overflow checks on; a cell = (message kind, peer state at delivery, generator class, outcome ok/ban/PANIC)",
    sizes=tiers(16, 360, 60, 16, 8000, 900, min_evals=20000, min_cells=150),
    technique="runtime monitoring: seeded state-aware grammar + boundary-value mutation of live honest answers + truncation / bit-flip / random-byte fuzzing at the received() boundary, panic capture, overflow-checking build, shard exit status",
    level_text="Every generated byte string - well-formed messages of every union variant of the four protocols with numeric fields at {0,1,2,2^32-1,2^32,2^63,2^64-1,2^255,2^256-1, current+-1}, honest answers to the client's live requests with one field pushed to a boundary value and re-committed / re-mined so that the cheap gates are passed, v1 extra-field garbage, truncations, bit flips and random bytes - delivered in the peer states reached by real protocol steps (with and without scripts, fetch requests, dummy and real PoW), followed by timer ticks, returned without panic, arithmetic overflow or process death (only the documented long-fork abort is exempt). Chains with illegal difficulty jumps (tau re-check path) and BlockFilters whose block hashes repeat are part of the generators.",
    level_note="coverage-blind generator (no libFuzzer offline for this dependency tree): reach is the grammar, the live-answer mutation and the coverage matrix reported in the evidence",
    death_is_violation=True,
)

IDX_RULE = ("one evaluation = one compared cell / history entry of the final RPC answers (all pages walked) against the reference indexer, one convergence judgement, "
            "or one set_scripts / reported-number model check; a cell = (user-action flags of the history, chain length class) / set_scripts command shape")

prop(
    "C03", "exploration", rule=IDX_RULE,
    sizes=tiers(16, 180, 70, 16, 1500, 900, min_evals=3000, min_cells=8),
    technique="runtime monitoring: reference indexer (independent UTXO/history model over the generated chain) compared with get_cells / get_transactions / get_cells_capacity after bounded-progress convergence",
    level_text="After generated sync histories (transaction graphs with same-block chains, multi-script and typed cells; 1-4 registered scripts with different start numbers; random filter batch boundaries) interleaved with fetch_transaction / fetch_header calls, partial set_scripts of new scripts, restarts and chain growth (a third of the user's calls in the middle of a round, answers still in flight), every cell returned is live on the chain with exactly the chain's out-point, output, data, block number and tx index, every live cell and history entry in (start, tip] is returned, and get_cells_capacity equals the sum. A tenth of the histories start with the client's tip at block#1.",
    level_note="GCS false negatives are excluded by the library; convergence is bounded (250 rounds, chain keeps growing)",
)
prop(
    "C04", "exploration", rule=IDX_RULE,
    sizes=tiers(16, 180, 70, 16, 1500, 900, min_evals=3000, min_cells=8),
    technique="runtime monitoring: reference indexer on the new branch + bounded-progress convergence oracle + store-unchanged monitor until the documented long-fork abort",
    level_text="After generated fork switches (fork point below / at / above last-N, arriving mid filter batch or mid download, with matched blocks pending, after restarts) the RPC answers equal the reference index of the new branch within 250 rounds of honest syncing; for forks that share no remembered header the index and stored tip stay byte-identical until the client stops with the documented long-fork panic. A tenth of the histories start with the client's tip at block#1, after which block#1 is replaced or the chain grows (the 'previous last header is block#1' rollback).",
    level_note="check point interval > last-N as in production; unbounded 'never stuck' restated as bounded progress",
)
prop(
    "C09", "exploration", rule=IDX_RULE,
    sizes=tiers(16, 180, 70, 16, 1500, 900, min_evals=3000, min_cells=10),
    technique="runtime monitoring: README map model for the script set, matched-block emptiness check after every set_scripts, reported-number-implies-indexed rule, reference indexer at convergence",
    level_text="For generated sequences of set_scripts (all / partial / delete, empty lists, duplicates, start numbers above and below current progress, re-adding deleted scripts) issued at random points of an ongoing sync (with matched blocks pending or partly downloaded; a third of the calls in the middle of a round with filter batches, blocks and proofs in flight): get_scripts equals the README model right after each call, pending matched blocks are discarded, no script reports a filtered height while a block at or below it that touches it is not indexed, and after convergence every kept script has its complete history and no phantom cell. A tenth of the histories start with the client's tip at block#1 (block#1 rollback path; block#1 replaced or the chain simply grows).",
    level_note="inputs whose previous output predates a script's start number cannot be attributed by design and are reported under C03",
)

prop(
    "C08", "fault_enumeration",
    rule="one evaluation = one (history, write boundary k) pair: the client is killed immediately before its k-th storage write (put / delete / batch commit), reopened twice, the interrupted RPC call is repeated, syncing continues and the final RPC answers are compared with the reference indexer; "
         "every k in 1..=W of every generated history is run; a cell = (write site, enclosing operation, recovery outcome)",
    sizes=tiers(16, 4, 75, 16, 60, 1500, min_evals=300, min_cells=10),
    technique="runtime fault injection at the before_write hook (process-death model: writes < k durable, write k and later never happen), restart from disk, bounded-progress recovery, reference-indexer comparison",
    level_text="For every generated sync history (first-run initialisation, set_scripts all / delete, filter batches, block download and indexing, tip updates, check point finalization, shallow fork rollback, restarts) a crash-free run is validated against the reference indexer and then every write boundary of that history is crashed: the store must reopen (twice in a row) without panic and continued syncing must reach answers equal to the reference at the final tip. set_scripts calls arrive both at rest and mid-sync (matched blocks pending). A mismatch is attributed to the crash only if the same history with a clean restart at the same act is clean; mismatches that the clean restart reproduces are counted, not judged (they belong to C04 / C05). The crash model (unwinding at the hook, handles dropped, same-process reopen) is cross-checked at a sample of the write boundaries of every history by a child process that really abort()s before that write: its store is compared with the model's and the recovery is run from it. After the recovery the history's fetch_header / fetch_transaction / get_transaction calls are repeated: they must answer, and a committed answer comes with a stored header.",
    level_note="process death between two writes (batches are atomic); torn writes / fsync loss are out of scope; all scripts are registered with start number 0 so that the reference is exact; one serving peer keeps the write sequence reproducible (crash points not reached are counted, not claimed)",
)

prop(
    "C17", "fault_enumeration",
    memcheck=1, asan_quick=2, tsan=2,
    rule="one evaluation = one pause-point experiment on real threads: operation A is parked before its k-th storage write, operation B runs on another thread, A is released, and the final state "
         "(script set with numbers, filter progress, persisted and in-memory matched blocks, index digest) is compared with the two serial outcomes computed on replays of the same S0; "
         "every ordered pair of {set_scripts all / partial / delete, BlockFilters processing, SendBlock completing a batch, SendLastStateProof with a reorg section (fork rollback)} x every write boundary k of A is run; a cell = (A, B, k, B finished while A parked?, lock free at the pause?, serial order matched). Reader clause: one evaluation = one reader experiment: a thread runs one paged query (get_cells asc/desc, get_transactions asc/desc/grouped with and without filter.script, get_cells_capacity) and is parked at a read-side pause point (first / middle / last visited index entry, or right before the tip is read) while a complete writer sequence (growth indexed through the real handlers, whole-network fork switch with index rollback, or both) runs on the main thread; the query evaluated at every storage write of the writer gives the point-in-time states S_0..S_W, the released reader must return one of them and must not panic; a cell = (query, writer, park position, which state the answer equals)",
    sizes=tiers(16, 3, 75, 16, 60, 1200, min_evals=60, min_cells=30),
    technique="runtime schedule control through the before_write / at_read hooks (park / release on channels), serial-outcome comparison, point-in-time-state membership for parked readers, lock probe at the pause point, /proc thread-state deadlock detector",
    level_text="For every ordered pair of the six state-changing operations (incl. the fork rollback of commit_prove_state) and every internal write boundary of the first, started from a prepared mid-sync state (scripts registered, filter batch due, matched blocks pending with one block outstanding), the outcome equals one of the two serial outcomes and both threads finish; whether the second operation could run while the first was parked (i.e. whether the global lock was held at that boundary) is recorded per cell. The pairs are run from two prepared states: mid-sync (six operations) and fully synced (the three set_scripts commands and a fork rollback that deletes index entries and rewinds the filter progress). Randomized runs put three operations on three threads with random pause points, start and release orders and compare with the six serial orders. Readers: every paged query parked mid-scan (or between the scan and the tip read) across a full growth / fork-rollback writer sequence returned an answer equal to one of the writer's point-in-time states (on the unchanged tree always the state at the call).",
    level_note="in the mid-sync state the fork rollback has no index entries to delete (the filter progress is far below the fork point), in the synced state it has; the grace periods (40-60 ms) that let a started thread reach its pause point only decide which interleaving is explored, never a verdict; the reader experiments pause the reader only at the hooked read points (per visited entry, before the tip read) and let the whole writer sequence run there; a RocksDB iterator is itself a consistent view, so only reads that bypass the snapshot next to the iterator (tip, filter-script lookups) can be told apart - a transaction-record lookup outside the snapshot is behaviourally equivalent because TxHash records are never deleted; schedules inside one RocksDB call are not controlled",
)

prop(
    "C16", "exploration",
    rule="one evaluation = one status returned by fetch_header / fetch_transaction (judged as an edge of the status automaton against the previous status of the same hash, and against the missing reports of honest peers), "
         "one committed (transaction, block hash) pairing, or one bounded-progress judgement; a cell = (kind, status edge, disturbance mode) / final status class",
    sizes=tiers(16, 400, 60, 16, 6000, 900, min_evals=3000, min_cells=20),
    technique="runtime monitoring: offline status-automaton checker over the RPC call/return trace, ground-truth lookup (transaction -> containing block), missing-report bookkeeping at the peer boundary, bounded-progress oracle",
    level_text="In generated histories (existing and non-existing headers / transactions, 1-3 proven peers, fetch ticks with real or fast timer periods, serving peer answering invalidly, not answering until the timeout, answering several rounds late while further fetch calls arrive, or disconnecting before the answer) every status sequence is a path added -> fetching(first_sent constant) -> fetched | not_found -> added ..., not_found appears only after a valid missing report, an existing item is fetched within 45 rounds while an honest proven peer is connected, and every committed answer names a stored header whose block contains the transaction. A quarter of the scenarios fetch a transaction of the two highest provable blocks, switch the whole network to a branch that replaces that height, store the new branch's block at the same height (fetch_header, fetch_transaction or filter-sync indexing) and judge what get_transaction / fetch_transaction then say about the first transaction (KF47). Mode session-closing (fault injection): the serving peer's session starts closing - sends fail and are lost - and the disconnected callback arrives 1..4 rounds later.",
    level_note="'never lost' is restated as bounded progress (45 rounds; 110 for the timeout mode); a committed answer after a fork switch is accepted when it names the block that really contains the transaction (stale but truthful) or when the status is no longer committed",
)

prop(
    "C02", "exploration",
    rule="one evaluation = one delivered message (INVALID ones judged by a before/after dump of the index / transaction / header keyspaces) or one stored transaction / header checked against the chain at the end of a scenario; "
         "a cell = (operator, outcome)",
    sizes=tiers(16, 320, 60, 16, 2500, 900, min_evals=3000, min_cells=15),
    technique="runtime monitoring: RocksDB keyspace dump before/after every adversarial SendBlock / SendBlocksProof / SendTransactionsProof, end-of-scenario membership check of every stored transaction and header in the generated chain",
    level_text="In generated sync histories with registered scripts and outstanding fetch requests, every adversarial answer - right header with a substituted body (output edited, transaction added / removed, body of another block, witness or extension edited), unrequested blocks, headers outside the request / forged / duplicated, found reported as missing, altered proof items, proofs against an unproven last header, forged Merkle lemmas / indices / witnesses roots, replaced transactions - leaves the Cell*, Tx*, TxHash, BlockHash and BlockNumber keyspaces unchanged, and at the end every stored transaction and header is one of the chain. fetch_transaction / fetch_header calls for never-committed transactions and for made-up blocks are answered with blocks the peer made up (real block re-built around the transaction, re-committed, re-mined, consistent CBMT proof and v1 fields) at the height of the last header, one below, lower, and at the height of a genuine block of the same answer: nothing of them may be stored.",
    level_note="bodies colliding on transactions_root are out of scope (hash collision)",
)

prop(
    "C07", "exploration",
    rule="one evaluation = one delivered BlockFilterCheckPoints message or one refresh tick judged against the reference quorum rule evaluated on the snapshot of proven peers' vectors taken just before the tick; "
         "a cell = (message shape, honest/deviating sender, kept/banned) / (advance or not, quorum, supporters, deviators)",
    sizes=tiers(16, 600, 60, 16, 30000, 900, min_evals=8000, min_cells=40),
    technique="runtime monitoring: online monotonicity / immutability check of the CheckPointIndex keyspace, reference quorum rule over snapshots of get_all_proved_check_points(), expected-progress rule, ban monitor",
    level_text="For generated configurations (max outbound 1..8, 1..10 proven peers, honest vectors and vectors deviating from some index on, short / overlapping / gapped / unaligned / one-off-lie messages, all orders of messages and refresh ticks, peers proved in mid-session whose vectors start behind the finalized index, peers leaving, restarts that rebuild Peers from the stored last check point) the final index never decreases, final values are never rewritten, every advance is backed by at least ceil(max_outbound/2) proven peers agreeing on every new index, fewer deviators than the quorum neither finalize a wrong value nor block agreement among at least a quorum of honest peers, and a peer contradicting the final value is banned at the tick that judges it.",
    level_note="peers are brought to the proven state with the cfg(test) helper mock_prove_state (the real handshake is exercised by C05); check point values come from the generated chain's filter hashes",
)

prop(
    "C11", "exploration",
    rule="one evaluation = one observed (peer state before, cause, peer state after) triple judged against the reference automaton transcribed from the plantuml diagram (DESIGN appendix B), "
         "plus the timeout rule at every refresh tick and the no-residue rule after every removal; a cell = distinct (state, cause, resulting state) triple",
    sizes=tiers(16, 600, 60, 16, 40000, 900, min_evals=20000, min_cells=40),
    technique="runtime monitoring: offline automaton conformance over the boundary trace (events, states before/after, disconnects, virtual time), prove-state preservation check, timeout oracle in virtual time",
    level_text="For generated event sequences (connect, disconnect, refresh / fetch / idle / filter ticks, time advanced to just below and above the 60 s timeout, chain growth, single message deliveries in any order, replayed / stale / unsolicited proofs, muted peers) over 1-3 peers: every state change is an edge of the documented automaton for its cause, a proof changes the prove state only while a proof request is outstanding, a last-state update never discards a prove state, a request (last state, last state proof, and - in the busy scenarios with registered scripts, fetch_header / fetch_transaction calls and peers that withhold SendBlocksProof / SendBlock / SendTransactionsProof - blocks proof, blocks and transactions proof requests sent at different times) or last state older than the timeout leads to a disconnect at the next refresh tick and no disconnect happens without such a cause, and a removed peer leaves no entry behind. Fault injection at the network boundary: sessions that start closing (sends fail and are lost, the disconnected callback comes later); chains with illegal difficulty jumps add the tau re-check edges. After every removal of a peer (disconnect, ban, timeout) the header / transaction fetches it had in flight are eligible for other peers again.",
    level_note="the send times of GetBlocksProof / GetBlocks / GetTransactionsProof requests are observed at the network boundary (virtual time of the outbound message), their existence through the pub(crate) accessors of Peer; a request whose send was not observed is not judged",
)

prop(
    "C18", "exploration",
    rule="one evaluation = one send_transaction / estimate_cycles verdict compared with the reference verdict known by construction (valid base transaction, or exactly one invalidating mutation), one pending / unknown status check, one FIFO pool model comparison, or one relayed hash / transaction; "
         "a cell = (operator, verdicts) / pool fill class / relay event",
    sizes=tiers(16, 120, 60, 16, 800, 900, min_evals=1500, min_cells=12),
    technique="runtime monitoring: reference verdict by construction, FIFO-with-limit pool model, exactly-once checker per (peer id, hash) over RecNet's relay log, cycles equality across estimate / pool / relay",
    level_text="On a synced client whose chain deploys the always-success script and, in half of the scenarios, the real secp256k1_blake160_sighash_all lock (bundled system script; transactions signed by the harness, so the verdict depends on the witness: flipped signature bit, other key, missing signature, and same-hash variants of a pending transaction with a corrupted signature or an oversized witness are rejected and leave the pending entry byte-identical): valid transactions (incl. chains spending outputs of pending ones, beyond the pool limit of 64) are accepted by send_transaction and estimate_cycles with the same cycles, every mutant (capacity overflow, duplicated / unknown input, unknown dep, immature since, output below occupied capacity, script code missing, duplicated dep, garbage dep group, no outputs) is rejected by both and stays unknown and unrelayed, the pool equals a FIFO-with-limit model with members reported pending, each pending hash is announced at most once per peer id, and GetRelayTransactions serves only pool members with the estimated cycles. since locks with a reference verdict: absolute / relative block number, absolute epoch, relative to committed cells and to outputs of pending transactions.",
    level_note="the two relay branches that need tentacle's ServiceControl (open / close protocol) are not reachable with the recording network context; script verification itself (ckb-script, the bundled secp256k1 binary) is trusted",
)

prop(
    "C06", "exploration",
    rule="one evaluation = one tampered BlockFilters answer delivered, one advance of the filtered height, or one history entry / cell of a registered script compared with the reference index up to the block number the client reports for that script; "
         "a cell = (operator, script-active or quiet height) / (advance, label of the message that caused it)",
    sizes=tiers(16, 400, 60, 16, 4000, 900, min_evals=2000, min_cells=20),
    technique="runtime monitoring: adversarial peers tamper BlockFilters answers (hash chain and check points stay honest), trick-agnostic oracle = reference indexer compared with the client's answers up to its self-reported script block numbers and at convergence",
    level_text="With 2-4 proven peers of which at least one is honest, deviating peers answer GetBlockFilters with 13 kinds of tampered batches (filter bytes, neighbour / quiet-block filter, start +-1, random / other-height / swapped block hashes, count mismatch, shorter batch, garbage tail, swapped filters, shifted batch), aimed at heights where a registered script is active, on both the cached-hash and latest-hash paths; no registered script's activity at or below its reported block number is missing from get_transactions / get_cells, and at convergence the index equals the reference. In a third of the scenarios the deviation is in the vote: a minority below the quorum (max_outbound 3..5) serves consistently tampered filters, block filter hashes and check points; liars connect first, honest peers join one by one or lag behind.",
    level_note="deviators never reach the quorum for filter hashes / check points (C07 covers that vote); scripts are registered from block 0 before the sync so the recorded C03/C04/C09 findings cannot interfere",
)
